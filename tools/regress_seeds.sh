#!/bin/bash
# regress_seeds.sh [glob] [jobs]: every filed seeded change must still be caught.  For each /verif/seeded/<id>: a scratch worktree of
# /repo HEAD under /tmp/rs/<id>, `git apply` the patch there, run the quick check of the seed's property with PYTHONPATH pointing at the
# worktree (so that it, not /repo, is imported), remove the worktree.  /repo itself is not touched, so several run in parallel
# (default 4).  One line per seed: <seed> <property> exit=<code> violations=<n>.  Expected: exit=1 for every seed except the stated
# exclusions (C11-m2, C11-r2m1: dtype; C13-m2, C12-r2m2: float rounding of a quotient), which stay at exit=0.
# (The evidence files this rewrites are not evidence for the registered checks: re-run tools/run_all.sh afterwards.)
cd "$(dirname "$0")/.."
GLOB=${1:-*}; JOBS=${2:-4}
bin/bootstrap.sh >/dev/null 2>&1
one() {
  d=$1; id=$(basename $d)
  prop=$(python3 -c "import json; print(json.load(open('$d/meta.json'))['property'])")
  wt=/tmp/rs/$id; rm -rf $wt; mkdir -p /tmp/rs
  git -C /repo worktree add -q --detach $wt HEAD 2>/dev/null || { echo "$id $prop worktree-failed"; return; }
  if git -C $wt apply /verif/$d/patch.diff 2>/dev/null; then
    out=$(cd /verif && VERIF_EVIDENCE_DIR=/tmp/rs/ev_$id PYTHONPATH=$wt timeout 3000 .venv/bin/python -W ignore -m harness.run $prop --tier quick 2>&1); rc=$?
    echo "$id $prop exit=$rc violations=$(echo "$out" | grep -c '^VIOLATION')"
  else
    echo "$id $prop patch-does-not-apply"
  fi
  git -C /repo worktree remove --force $wt; rm -rf /tmp/rs/ev_$id
}
export -f one
ls -d seeded/$GLOB/ | xargs -P $JOBS -I{} bash -c 'one {}'
git -C /repo worktree prune
