"""C03 — batched and stepwise evaluation agree; prev_hedge is the last output."""
import torch

from harness.lib import Case
from harness import common as cm
from symtorch import api
from symtorch import tensor as st
from symtorch.api import elem

META = {
    "stubs": ["simulate(): fresh symbolic buffers", "hedging model: uninterpreted row-wise function (same symbol in both hedgers)"],
    "axioms": ["congruence of uninterpreted functions", "log axiom instances (log features)"],
    "assumptions": ["exact reals; N<=3, H<=3, T<=6", "the Empty feature is excluded from value comparisons (uninitialised memory: only its shape is checked)"],
}


def feature_case(fname, N, T, ul_kind="brownian"):
    def fn(c):
        env = cm.market(c, N, T, "european", "primary_plus_listed", ul_kind=ul_kind)
        deriv, listed = env["derivative"], env["hedge"][1]
        target = listed if fname in ("spot", "log_spot") else deriv
        if fname == "log_spot":
            listed.list(lambda d: d.ul().spot * 2 + 1, cost=0.0)
        f = cm.make_feature(c, fname).of(target)
        full = f.get(None)
        c.check("%s: get(None) shape" % fname, tuple(full.shape) == (N, T, 1))
        for i in list(range(T)) + [-1]:
            if i < 0 and fname in ("max_moneyness", "max_log_moneyness", "barrier_up", "barrier_down", "module_output"):
                continue  # prefix slices with a negative step index are not an accepted use (they raise)
            one = f.get(i)
            c.check("%s: get(%d) shape" % (fname, i), tuple(one.shape) == (N, 1, 1))
            if fname == "empty":
                continue
            for n in range(N):
                c.check("%s: get(%d)[%d] == get(None)[:, %d]" % (fname, i, n, i), api.eq(elem(one, n, 0, 0), elem(full, n, i, 0)))
        if fname != "empty":
            # single steps requested in descending order on the same bound feature (no state carried between calls)
            for i in reversed(range(T - 1)):
                one = f.get(i)
                for n in range(N):
                    c.check("%s: descending get(%d)[%d] == get(None)[:, %d]" % (fname, i, n, i), api.eq(elem(one, n, 0, 0), elem(full, n, i, 0)))
        if fname not in ("empty", "zeros", "ones", "time_to_maturity", "expiry_time", "volatility", "variance") and T >= 3:
            if not (fname in ("volatility", "variance") and ul_kind == "brownian"):
                c.control("control:%s wrong column" % fname, api.eq(elem(f.get(1), 0, 0, 0), elem(full, 0, 2, 0)))

    return fn


def modes_case(N, T, H, crit_name, hedge_kind, controls=False, resim=False):
    """A hedger whose model ignores prev_hedge (stepwise branch) equals the vectorised hedger."""

    def fn(c):
        from pfhedge.nn import EntropicRiskMeasure, ExpectedShortfall

        crit = (lambda: ExpectedShortfall(0.5)) if crit_name == "es" else (lambda: EntropicRiskMeasure(api.real(c, "a", pos=True)))
        env = cm.market(c, N, T, "european", hedge_kind, cost_sym=True)
        deriv, hedge = env["derivative"], env["hedge"]
        inputs = ["log_moneyness", "time_to_maturity", "volatility", "max_moneyness"]
        vec = cm.make_hedger(c, inputs, H, criterion=crit())
        stp = cm.make_hedger(c, inputs + ["prev_hedge"], H, criterion=crit(), ignore_last=H)
        hv, hs = vec.compute_hedge(deriv, hedge), stp.compute_hedge(deriv, hedge)
        c.check("hedge shapes", tuple(hv.shape) == (N, H, T) and tuple(hs.shape) == (N, H, T))
        c.check("hedge equal", api.tensor_eq(hv, hs))
        pv, ps = vec.compute_pl(deriv, hedge), stp.compute_pl(deriv, hedge)
        c.check("pl equal", api.tensor_eq(pv, ps))
        lv, ls = vec.criterion(pv), stp.criterion(ps)
        c.check("loss equal", api.eq(elem(lv), elem(ls)))
        for n in range(N):
            for h in range(H):
                c.check("last column repeats [%d,%d] (vectorised)" % (n, h), api.eq(elem(hv, n, h, T - 1), elem(hv, n, h, T - 2)))
                c.check("last column repeats [%d,%d] (stepwise)" % (n, h), api.eq(elem(hs, n, h, T - 1), elem(hs, n, h, T - 2)))
        if resim:
            # the same two hedgers after the underlier has been simulated again with the same shape: still equal, on the new series
            cm.set_buffers(c, env["ul"], "again", N, T)
            hv2, hs2 = vec.compute_hedge(deriv, hedge), stp.compute_hedge(deriv, hedge)
            c.check("after a same-shape re-simulation: hedge equal", api.tensor_eq(hv2, hs2))
            c.check("after a same-shape re-simulation: pl equal", api.tensor_eq(vec.compute_pl(deriv, hedge), stp.compute_pl(deriv, hedge)))
        if controls and T >= 3:
            c.control("control:hedge shifted", api.eq(elem(hv, 0, 0, 1), elem(hs, 0, 0, 0)))

    return fn


def prev_hedge_case(N, T, H):
    """the prev_hedge columns the model sees at step i are its own output at step i-1 (zeros at step 0)"""

    def fn(c):
        hedge_kind = {1: "underlier", 2: "two_primaries"}[H]
        env = cm.market(c, N, T, "european", hedge_kind)
        deriv, hedge = env["derivative"], env["hedge"]
        inputs = ["log_moneyness", "time_to_maturity"]
        hedger = cm.make_hedger(c, inputs + ["prev_hedge"], H)
        out = hedger.compute_hedge(deriv, hedge)
        calls = hedger.model.calls
        c.check("T-1 model calls", len(calls) == T - 1)
        for i, inp in enumerate(calls):
            c.check("step %d input shape" % i, tuple(inp.shape) == (N, 1, len(inputs) + H))
            for n in range(N):
                for h in range(H):
                    seen = elem(inp, n, 0, len(inputs) + h)
                    want = 0 if i == 0 else elem(out, n, h, i - 1)
                    c.check("prev_hedge seen at step %d [%d,%d]" % (i, n, h), api.eq(seen, want))
        if T >= 3:
            c.control("control:prev_hedge is current output", api.eq(elem(calls[1], 0, 0, len(inputs)), elem(out, 0, 0, 1)))
        # a second evaluation on the same hedger starts from zeros again
        hedger.model.calls.clear()
        out2 = hedger.compute_hedge(deriv, hedge)
        first = hedger.model.calls[0]
        for h in range(H):
            c.check("second run: prev_hedge at step 0 is zero [%d]" % h, api.eq(elem(first, 0, 0, len(inputs) + h), 0))
        c.check("second run: same hedge", api.tensor_eq(out, out2))

    return fn


def cases():
    cs = []
    enc = ("Feature.get(i)/get(None) for every feature", "FeatureList.get", "ModuleOutput.get", "Hedger.compute_hedge (both branches)",
           "save_prev_output", "PrevHedge.get", "Hedger.compute_pl", "ExpectedShortfall/EntropicRiskMeasure.forward")
    feats = [f for f in cm.FEATURES if f != "log_spot_of_passthrough_pricer"]
    for f in feats:
        cs.append(Case("feature/%s" % f, feature_case(f, 2, 4), encodes=enc, bounds="N=2 T=4, steps 0..3 and -1"))
    for f in ("variance", "volatility"):
        cs.append(Case("feature/%s/heston" % f, feature_case(f, 2, 4, "heston"), encodes=enc, bounds="N=2 T=4"))
        cs.append(Case("feature/%s/localvol" % f, feature_case(f, 2, 3, "localvol"), encodes=enc, bounds="N=2 T=3"))
    for f in feats:
        cs.append(Case("feature/%s/T6" % f, feature_case(f, 3, 6, "heston"), tier="thorough", encodes=enc, bounds="N=3 T=6", timeout=120))
    cs.append(Case("modes/es/underlier/resimulated", modes_case(2, 3, 1, "es", "underlier", resim=True), encodes=enc,
                   bounds="N=2 T=3 H=1; both hedgers evaluated again after a same-shape re-simulation", timeout=60))
    cs.append(Case("modes/es/underlier/T2", modes_case(2, 2, 1, "es", "underlier"), encodes=enc, bounds="N=2 T=2 H=1 (maturity == dt: one hedging step)", timeout=60))
    cs.append(Case("modes/es/underlier", modes_case(2, 3, 1, "es", "underlier", controls=True), encodes=enc, bounds="N=2 T=3 H=1", timeout=60))
    cs.append(Case("modes/entropic/two_primaries", modes_case(2, 3, 2, "entropic", "two_primaries"), encodes=enc, bounds="N=2 T=3 H=2", timeout=60))
    cs.append(Case("modes/es/listed/T4", modes_case(2, 4, 2, "es", "primary_plus_listed"), encodes=enc, bounds="N=2 T=4 H=2", timeout=60))
    cs.append(Case("modes/es/two_primaries/T6", modes_case(3, 6, 2, "es", "two_primaries"), tier="thorough", encodes=enc, bounds="N=3 T=6 H=2", timeout=300))
    cs.append(Case("modes/entropic/underlier/T5", modes_case(3, 5, 1, "entropic", "underlier"), tier="thorough", encodes=enc, bounds="N=3 T=5 H=1", timeout=300))
    cs.append(Case("prev_hedge/H1", prev_hedge_case(2, 4, 1), encodes=enc, bounds="N=2 T=4 H=1"))
    cs.append(Case("prev_hedge/H2", prev_hedge_case(2, 3, 2), encodes=enc, bounds="N=2 T=3 H=2"))
    cs.append(Case("prev_hedge/H2/T6", prev_hedge_case(3, 6, 2), tier="thorough", encodes=enc, bounds="N=3 T=6 H=2", timeout=120))
    return cs
