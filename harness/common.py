"""Shared harness building blocks: symbolic market (simulate stub), uninterpreted hedging model."""
import math

import numpy as np
import torch
from torch.nn import Module

from symtorch import api, ctx as cx, facades, terms as tm
from symtorch import tensor as st
from symtorch.ctx import SymReal


class UFModel(Module):
    """'Any row-wise hedging model': output column h is an uninterpreted function F_h of the feature
    vector (symbolic mode) / a fixed smooth injective-looking function (concrete replay mode)."""

    def __init__(self, n_out=1, name="F", seed=7, ignore_last=False):
        super().__init__()
        self.n_out = n_out
        self.uname = name
        self.seed = seed
        self.ignore_last = ignore_last
        self.calls = []

    def forward(self, input):
        if isinstance(input, st.SymTensor):
            p = input._p
            lead = p.shape[:-1]
            out = np.empty(lead + (self.n_out,), dtype=object)
            for idx in np.ndindex(*lead):
                feats = list(p[idx])
                if self.ignore_last:
                    feats = feats[:-int(self.ignore_last)]
                for h in range(self.n_out):
                    out[idx + (h,)] = tm.uf("%s%d" % (self.uname, h), *feats)
            r = st.SymTensor(out, input.dtype)
        else:
            x = input[..., :-int(self.ignore_last)] if self.ignore_last else input
            f = x.shape[-1]
            g = torch.Generator().manual_seed(self.seed + 13 * f)
            w1 = torch.randn(f, 5, generator=g, dtype=torch.float64)
            w2 = torch.randn(5, self.n_out, generator=g, dtype=torch.float64)
            r = torch.tanh(x.to(torch.float64) @ w1 + 0.3) @ w2 + 0.1 * x.sum(-1, keepdim=True)
        self.calls.append(input)
        return r


def make_hedger(c, inputs, n_out, criterion=None, model=None, **kw):
    from pfhedge.nn import Hedger

    with facades.real_torch():
        model = model or UFModel(n_out, **kw)
        if criterion is None:
            return Hedger(model, inputs)
        return Hedger(model, inputs, criterion=criterion)


def set_buffers(c, prim, name, N, T, kind="brownian"):
    """The simulate() stub: install fresh symbolic (or replayed concrete) buffers."""
    S = api.tensor(c, name + ".spot", (N, T), pos=True)
    prim.register_buffer("spot", S)
    if kind == "heston":
        V = api.tensor(c, name + ".variance", (N, T))
        prim.register_buffer("variance", V)
    if kind == "localvol":
        V = api.tensor(c, name + ".volatility", (N, T), nonneg=True)
        prim.register_buffer("volatility", V)
    return prim


def make_primary(c, name, N, T, kind="brownian", cost=None, dt=None, sigma=None):
    from pfhedge.instruments import BrownianStock, HestonStock, LocalVolatilityStock

    dt = dt if dt is not None else api.real(c, name + ".dt", pos=True)
    cost = 0.0 if cost is None else cost
    if kind == "brownian":
        sigma = sigma if sigma is not None else api.real(c, name + ".sigma", pos=True)
        p = BrownianStock(sigma=sigma, cost=cost, dt=dt)
    elif kind == "heston":
        p = HestonStock(cost=cost, dt=dt)
    else:
        p = LocalVolatilityStock(sigma_fn=lambda t, s: s * 0 + 0.2, cost=cost, dt=dt)
    return set_buffers(c, p, name, N, T, kind)


def make_derivative(c, kind, ul, strike=None, call=True):
    from pfhedge import instruments as I

    strike = strike if strike is not None else api.real(c, "K", pos=True)
    if kind == "european":
        return I.EuropeanOption(ul, call=call, strike=strike)
    if kind == "lookback":
        return I.LookbackOption(ul, call=call, strike=strike)
    if kind == "european_binary":
        return I.EuropeanBinaryOption(ul, call=call, strike=strike)
    if kind == "american_binary":
        return I.AmericanBinaryOption(ul, call=call, strike=strike)
    if kind == "variance_swap":
        return I.VarianceSwap(ul, strike=strike)
    if kind == "forward_start":
        return I.EuropeanForwardStartOption(ul, strike=strike)
    raise KeyError(kind)


def market(c, N, T, deriv_kind="european", hedge_kind="underlier", cost_sym=False, ul_kind="brownian"):
    cost = (lambda n: api.real(c, n)) if cost_sym else (lambda n: 0.0)
    ul = make_primary(c, "ul", N, T, kind=ul_kind, cost=cost("ul.cost"))
    deriv = make_derivative(c, deriv_kind, ul)
    hedge = None
    if hedge_kind == "two_primaries":
        other = make_primary(c, "p2", N, T, cost=cost("p2.cost"))
        hedge = [ul, other]
    elif hedge_kind == "primary_plus_listed":
        from pfhedge.instruments import EuropeanOption

        listed = EuropeanOption(ul, strike=api.real(c, "K2", pos=True))
        w = api.real(c, "w")

        def pricer(d):
            # an arbitrary listed price series: a function of the underlier path
            s = d.ul().spot
            return s * w + torch.nn.functional.relu(s - d.strike)

        listed.list(pricer, cost=cost("listed.cost"))
        hedge = [ul, listed]
    return {"ul": ul, "derivative": deriv, "hedge": hedge}


FEATURES = ["log_spot_of_passthrough_pricer", "moneyness", "log_moneyness", "max_moneyness", "max_log_moneyness", "time_to_maturity", "expiry_time",
            "volatility", "variance", "underlier_spot", "underlier_log_spot", "zeros", "empty", "barrier_up", "barrier_down",
            "spot", "log_spot", "ones", "module_output"]


def make_feature(c, name):
    from pfhedge import features as Fe
    from pfhedge.features import get_feature
    from pfhedge.features.features import Spot, UnderlierSpot, Ones

    if name == "underlier_log_spot":
        return UnderlierSpot(log=True)
    if name == "barrier_up":
        return Fe.Barrier(api.real(c, "B"), up=True)
    if name == "barrier_down":
        return Fe.Barrier(api.real(c, "B"), up=False)
    if name == "spot":
        return Spot()
    if name in ("log_spot", "log_spot_of_passthrough_pricer"):
        return Spot(log=True)
    if name == "ones":
        return Ones()
    if name == "module_output":
        return Fe.ModuleOutput(UFModel(1, name="G"), inputs=["log_moneyness", "time_to_maturity"])
    if name == "module_output_max":
        # a module feature whose own inputs are running maxima (state kept by a nested, re-bound feature must not leak)
        return Fe.ModuleOutput(UFModel(1, name="G"), inputs=["max_log_moneyness", "max_moneyness"])
    return get_feature(name)


