"""C16 — computations never mutate market data nor depend on call history."""
import numpy as np
import torch

from harness.lib import Case
from harness import common as cm
from symtorch import api, facades
from symtorch import tensor as st
from symtorch.api import elem

META = {
    "stubs": ["simulate(): fresh symbolic buffers", "hedging model: uninterpreted row-wise function"],
    "axioms": ["aliasing model: numpy object arrays share memory exactly where torch views do (basic slicing, unsqueeze, "
               "transpose, squeeze, reshape of contiguous data); advanced indexing, clone, cat and arithmetic copy",
               "log/exp/sqrt/Phi axiom instances for the value comparison"],
    "assumptions": ["exact reals; N<=2, T<=4, H<=2; operation sequences of length <= 3",
                    "dtype changes (to()) in histories are outside the claim (C17 territory)"],
}


def snapshot(t):
    if isinstance(t, st.SymTensor):
        return t._p.copy()
    return t.detach().clone()


def unchanged(c, name, t, snap):
    """every element of t still equals what it held at snapshot time"""
    if isinstance(t, st.SymTensor):
        now = t._p
        if now.shape != snap.shape:
            c.check(name, False)
            return
        rels = [api.eq(api.SymReal(a) if a.sort == "R" else api.SymBool(a), api.SymReal(b) if b.sort == "R" else api.SymBool(b))
                for a, b in zip(now.reshape(-1), snap.reshape(-1)) if a is not b]
        c.check(name, api.all_(*rels) if rels else True)
    else:
        same = t.shape == snap.shape and bool(torch.equal(t, snap) or torch.allclose(t, snap, rtol=0, atol=0, equal_nan=True))
        c.check(name, api.Rel(same, 1.0, "buffer changed"))


def all_buffers(instruments):
    out = []
    for ins in instruments:
        for nm, b in ins.named_buffers():
            out.append((ins, nm, b))
    return out


FEATURES = cm.FEATURES
make_feature = cm.make_feature


def feature_case(fname, N, T, ul_kind="brownian"):
    def fn(c):
        env = cm.market(c, N, T, "european", "primary_plus_listed", ul_kind=ul_kind)
        ul, deriv, listed = env["ul"], env["derivative"], env["hedge"][1]
        target = listed if fname in ("spot", "log_spot", "log_spot_of_passthrough_pricer") else deriv
        if fname == "log_spot_of_passthrough_pricer":
            # a listed instrument whose quoted price is the underlier's spot itself (e.g. a zero-rate forward)
            listed.list(lambda d: d.ul().spot, cost=0.0)
        if fname in ("log_spot",):
            # a listed price must be positive for its logarithm: use a positive pricer
            listed.list(lambda d: d.ul().spot * 2 + 1, cost=0.0)
        f = make_feature(c, fname).of(target)
        bufs = all_buffers([ul])
        snaps = [snapshot(b) for _, _, b in bufs]
        steps = [None] + list(range(T)) + [None]
        for i in steps:
            f.get(i)
            for (ins, nm, b), s in zip(bufs, snaps):
                unchanged(c, "%s.get(%s) leaves %s" % (fname, i, nm), b, s)
                if ins.get_buffer(nm) is not b:  # (a replaced buffer object must hold the same series)
                    unchanged(c, "%s.get(%s): the instrument's current %s" % (fname, i, nm), ins.get_buffer(nm), s)
        c.control("control:snapshot-sees-writes", _control_write(c, ul))

    return fn


def _control_write(c, ul):
    b = ul.spot
    s = snapshot(b)
    v = b[:, 0].unsqueeze(-1)
    v.log_()
    if isinstance(b, st.SymTensor):
        r = api.eq(api.SymReal(b._p[0, 0]), api.SymReal(s[0, 0]))
        b._p[...] = s
    else:
        r = api.Rel(bool(torch.equal(b, s)), 1.0)
        b.copy_(s)
    return r


def computation_case(N, T, deriv_kind, stepwise, ul_kind="brownian"):
    """payoff / hedge / pl / portfolio / criterion leave every buffer untouched."""

    def fn(c):
        from pfhedge.nn import ExpectedShortfall, EntropicRiskMeasure

        env = cm.market(c, N, T, deriv_kind, "primary_plus_listed", cost_sym=True, ul_kind=ul_kind)
        ul, deriv, hedge = env["ul"], env["derivative"], env["hedge"]
        bufs = all_buffers([ul])
        snaps = [snapshot(b) for _, _, b in bufs]
        from pfhedge.features.features import UnderlierSpot

        inputs = ["log_moneyness", "time_to_maturity", "volatility", UnderlierSpot(log=True)] + (["prev_hedge"] if stepwise else [])
        if deriv_kind == "variance_swap":
            inputs = ["underlier_spot", "volatility"] + (["prev_hedge"] if stepwise else [])
        hedger = cm.make_hedger(c, inputs, 2, criterion=ExpectedShortfall(0.5))

        def chk(tag):
            for (ins, nm, b), s in zip(bufs, snaps):
                unchanged(c, "%s leaves %s" % (tag, nm), b, s)
                if ins.get_buffer(nm) is not b:
                    unchanged(c, "%s: the instrument's current %s" % (tag, nm), ins.get_buffer(nm), s)

        deriv.payoff()
        chk("payoff")
        hedge[1].spot
        chk("listed.spot")
        hedger.compute_hedge(deriv, hedge=hedge)
        chk("compute_hedge")
        pl = hedger.compute_pl(deriv, hedge=hedge)
        chk("compute_pl")
        pf = hedger.compute_portfolio(deriv, hedge=hedge)
        chk("compute_portfolio")
        pls = snapshot(pl)
        hedger.criterion(pl)
        hedger.criterion.cash(pl)
        EntropicRiskMeasure()(pf, deriv.payoff())
        unchanged(c, "criterion leaves its input", pl, pls)
        chk("criterion")

    return fn


def passthrough_case(fname, ul_kind):
    """a hedger with one buffer-backed feature and a pass-through model must not write into the buffer"""

    def fn(c):
        from pfhedge.nn import Hedger

        env = cm.market(c, 2, 3, "european", "underlier", ul_kind=ul_kind)
        ul, deriv = env["ul"], env["derivative"]
        bufs = all_buffers([ul])
        snaps = [snapshot(b) for _, _, b in bufs]
        hedger = cm.make_hedger(c, [cm.make_feature(c, fname)], 1, model=torch.nn.Identity())
        hedger.compute_hedge(deriv)
        hedger.compute_pl(deriv)
        for (ins, nm, b), s in zip(bufs, snaps):
            unchanged(c, "identity-model hedge over %s leaves %s" % (fname, nm), b, s)

    return fn


def functional_case():
    """functional forms leave caller tensors untouched"""
    from pfhedge.nn import functional as F

    def fn(c):
        S = api.tensor(c, "S", (2, 2, 3), pos=True)
        U = api.tensor(c, "u", (2, 2, 3))
        Z = api.tensor(c, "Z", (2,))
        x = api.tensor(c, "x", (3, 2))
        lo = api.tensor(c, "lo", (3, 2))
        hi = api.tensor(c, "hi", (3, 2))
        s = api.tensor(c, "s", (2,))
        t = api.tensor(c, "t", (2,), pos=True)
        v = api.tensor(c, "v", (2,), pos=True)
        m = api.tensor(c, "m", (2,))
        K = api.real(c, "K", pos=True)
        args = [S, U, Z, x, lo, hi, s, t, v, m]
        snaps = [snapshot(a) for a in args]
        names = "S u Z x lo hi s t v m".split()

        def chk(tag):
            for a, sn, nm in zip(args, snaps, names):
                unchanged(c, "%s leaves %s" % (tag, nm), a, sn)

        F.pl(S, U, [api.real(c, "c0"), 0.0], Z)
        chk("pl")
        for f in (F.european_payoff, F.lookback_payoff, F.american_binary_payoff, F.european_binary_payoff):
            f(S[:, 0], strike=K)
        F.realized_variance(S[:, 0], 0.1)
        chk("payoffs")
        F.clamp(x, lo, hi)
        F.clamp(x, lo, hi, inverted_output="max")
        F.leaky_clamp(x, lo, hi, clamped_slope=api.real(c, "slope"))
        chk("clamps")
        F.expected_shortfall(x, 0.5, dim=0)
        F.entropic_risk_measure(x, a=api.real(c, "a", pos=True))
        F.exp_utility(x)
        F.value_at_risk(x, 0.5, dim=0)
        chk("risk")
        F.bs_european_price(s, t, v, K)
        F.bs_european_delta(s, t, v)
        F.bs_european_gamma(s, t, v, K)
        F.bs_european_binary_price(s, t, v)
        F.bs_american_binary_price(s, m, t, v)
        chk("bs")
        F.bs_lookback_delta(s, m, t, v, K)
        chk("autogreek")

    return fn


def qcvar_functional_case(dim_none):
    """quadratic_cvar (bisect replaced by its contract stub) leaves the caller's sample untouched, so a second criterion on the same
    tensor sees the same data"""
    from harness.stubs import patched_bisect
    from pfhedge.nn import functional as F

    def fn(c):
        c.env["log10_decade"] = 0
        x = api.tensor(c, "x", (3,) if dim_none else (3, 2), lo=-3, hi=3)
        snap = snapshot(x)
        with patched_bisect(c, name="quadratic_cvar->bisect", check_preconditions=False):
            F.quadratic_cvar(x, api.real(c, "lam", lo=1, hi=20), dim=None if dim_none else 0)
        unchanged(c, "quadratic_cvar leaves x", x, snap)
        es1 = F.expected_shortfall(x, 0.5, dim=0)
        F.expected_shortfall(x, 1.0, dim=0)
        F.value_at_risk(x, 0.4, dim=0)
        F.isoelastic_utility(api.tensor(c, "wealth", (2,), pos=True), 0.5)
        unchanged(c, "ES/VaR leave x", x, snap)
        c.check("a second expected_shortfall on the same tensor is equal", api.tensor_eq(es1, F.expected_shortfall(x, 0.5, dim=0)))

    return fn


def resimulate_case(deriv_kind, stepwise, with_listed, heston=False):
    """The same hedger, derivative and underlier objects, re-simulated with the SAME shape (fresh series installed through the underlier's
    own register_buffer, i.e. the route `stock.simulate()` takes): every result must be that of fresh objects holding the new series --
    nothing cached from the first simulation (features, running maxima, listed prices, derived volatility) may survive."""

    def fn(c):
        from pfhedge.instruments import BrownianStock, EuropeanOption, HestonStock
        from pfhedge.nn import ExpectedShortfall

        N, T = 2, 3
        kind = "heston" if heston else "brownian"
        dt, sigma, K, K2, w = api.real(c, "dt", pos=True), api.real(c, "sigma", pos=True), api.real(c, "K", pos=True), api.real(c, "K2", pos=True), api.real(c, "w")

        def build(ul):
            d = cm.make_derivative(c, deriv_kind, ul, strike=K)
            hedge = None
            if with_listed:
                listed = EuropeanOption(ul, strike=K2)
                listed.list(lambda q: q.ul().spot * w + torch.nn.functional.relu(q.ul().spot - q.strike), cost=0.0)
                hedge = [ul, listed]
            return d, hedge

        mk_ul = (lambda: HestonStock(cost=0.0, dt=dt)) if heston else (lambda: BrownianStock(sigma=sigma, cost=0.0, dt=dt))
        with facades.real_torch():
            ul = mk_ul()
        cm.set_buffers(c, ul, "first", N, T, kind)
        d, hedge = build(ul)
        H = 2 if with_listed else 1
        inputs = ["log_moneyness", "max_log_moneyness", "time_to_maturity", "volatility"] + (["prev_hedge"] if stepwise else [])
        used = cm.make_hedger(c, list(inputs), H, criterion=ExpectedShortfall(0.5))
        fresh = cm.make_hedger(c, list(inputs), H, criterion=ExpectedShortfall(0.5))
        # round 1 on the first series: everything that could be cached is computed once
        used.compute_pl(d, hedge)
        used.compute_hedge(d, hedge)
        _ = d.payoff(), d.max_log_moneyness(), ul.volatility
        if with_listed:
            _ = hedge[1].spot
        # round 2: same objects, same shape, new series
        cm.set_buffers(c, ul, "second", N, T, kind)
        out_u, hedge_u = used.compute_pl(d, hedge), used.compute_hedge(d, hedge)
        # fresh objects holding the very same (second) series
        with facades.real_torch():
            ul_f = mk_ul()
        for nm, b in ul.named_buffers():
            ul_f.register_buffer(nm, b)
        d_f, hedge_f = build(ul_f)
        out_f, hedge_fr = fresh.compute_pl(d_f, hedge_f), fresh.compute_hedge(d_f, hedge_f)
        c.check("after a same-shape re-simulation: hedge equals that of fresh objects", api.tensor_eq(hedge_u, hedge_fr))
        c.check("after a same-shape re-simulation: P&L equals that of fresh objects", api.tensor_eq(out_u, out_f))
        c.check("after a same-shape re-simulation: payoff equals that of fresh objects", api.tensor_eq(d.payoff(), d_f.payoff()))
        c.check("after a same-shape re-simulation: running maximum belongs to the new series",
                api.tensor_eq(d.max_log_moneyness(), d_f.max_log_moneyness()))
        if with_listed:
            c.check("after a same-shape re-simulation: listed price belongs to the new series", api.tensor_eq(hedge[1].spot, hedge_f[1].spot))
        d0, _h0 = _first(c, build, mk_ul, N, T, kind)
        c.control("control:the running maximum after re-simulation equals the first series'",
                  api.eq(api.elem(d.max_log_moneyness(), 0, 1), api.elem(d0.max_log_moneyness(), 0, 1)))

    return fn


def _first(c, build, mk_ul, N, T, kind):
    """fresh objects holding the FIRST series again (same symbol names give the same symbols)"""
    with facades.real_torch():
        ul0 = mk_ul()
    cm.set_buffers(c, ul0, "first", N, T, kind)
    return build(ul0)


def training_history_case(seq):
    """histories that include price / compute_loss / fit on one hedger, then hedging B: equal to a fresh hedger holding the
    same (possibly trained) parameters"""

    def fn(c):
        from harness.c06 import SimStub
        from harness.c15 import SymSGD, _quiet_formatting
        from pfhedge.nn import ExpectedShortfall, Hedger

        _quiet_formatting()
        c.env["track_grad"] = True
        c.env["float_sink_ok"] = True
        A = cm.market(c, 2, 3, "european", "underlier", cost_sym=False)
        dA = A["derivative"]
        ulb = cm.make_primary(c, "ulB", 1, 4)
        dB = cm.make_derivative(c, "lookback", ulb, strike=api.real(c, "KB", pos=True))
        inputs = ["moneyness", "time_to_maturity", "prev_hedge"]
        W = api.tensor(c, "W", (1, 3), lo=-1, hi=1)
        b = api.tensor(c, "b", (1,), lo=-1, hi=1)
        with facades.real_torch():
            lin = torch.nn.Linear(3, 1).double()
        lin.weight = torch.nn.Parameter(W if c.mode == "sym" else W.clone())
        lin.bias = torch.nn.Parameter(b if c.mode == "sym" else b.clone())
        used = cm.make_hedger(c, inputs, 1, criterion=ExpectedShortfall(0.5), model=lin)
        sim = SimStub(c, dA, 2, 3, prefix="simA")
        lr = api.real(c, "lr", pos=True, hi=1)
        for op in seq:
            if op == "priceA":
                used.price(dA, n_paths=2)
            elif op == "lossA":
                used.compute_loss(dA, n_paths=2)
            elif op == "loss2A":
                used.compute_loss(dA, n_paths=2, n_times=2, enable_grad=False)
            elif op == "fitA":
                used.fit(dA, n_epochs=1, n_paths=2, optimizer=SymSGD(used.model.parameters(), lr), verbose=False)
            elif op == "plA":
                used.compute_pl(dA)
            elif op == "hedgeB":
                used.compute_hedge(dB)
        c.check("grad mode restored after %s" % "+".join(seq), torch.is_grad_enabled())
        fresh = cm.make_hedger(c, inputs, 1, criterion=ExpectedShortfall(0.5), model=lin)
        if "fitA" in seq:
            fresh.eval()  # fit(validation=True) leaves the hedger in evaluation mode; modes do not affect a linear model
        out_u, out_f = used.compute_pl(dB), fresh.compute_pl(dB)
        c.check("history %s: pl(B) equals a fresh hedger with the same parameters" % "+".join(seq), api.tensor_eq(out_u, out_f))
        hu, hf = used.compute_hedge(dB), fresh.compute_hedge(dB)
        c.check("history %s: hedge(B) equals a fresh hedger" % "+".join(seq), api.tensor_eq(hu, hf))

    return fn


def history_case(seq, stepwise, module_max=False):
    """final compute_pl(B) of a hedger that went through `seq` == that of a fresh hedger"""

    def fn(c):
        from pfhedge.nn import ExpectedShortfall

        A = cm.market(c, 2, 3, "european", "underlier", cost_sym=True)
        # B: different shape, different derivative type, separate underlier
        ulb = cm.make_primary(c, "ulB", 1, 4, cost=api.real(c, "ulB.cost"))
        dB = cm.make_derivative(c, "lookback", ulb, strike=api.real(c, "KB", pos=True))
        inputs = ["log_moneyness", "time_to_maturity", "volatility"] + (["prev_hedge"] if stepwise else [])
        if module_max:
            inputs = ["time_to_maturity"] + (["prev_hedge"] if stepwise else [])
        mk = lambda: inputs + ([cm.make_feature(c, "module_output_max")] if module_max else [])
        used = cm.make_hedger(c, mk(), 1, criterion=ExpectedShortfall(0.5))
        fresh = cm.make_hedger(c, mk(), 1, criterion=ExpectedShortfall(0.5))
        dA = A["derivative"]
        for op in seq:
            if op == "hedgeA":
                used.compute_hedge(dA)
            elif op == "plA":
                used.compute_pl(dA)
            elif op == "hedgeB":
                used.compute_hedge(dB)
            elif op == "plB":
                used.compute_pl(dB)
            elif op == "inputA":
                if not stepwise:  # get_input() does not bind the hedger, so prev_hedge is unavailable there
                    used.get_input(dA, 0)
                else:
                    used.compute_hedge(dA)
            elif op == "critA":
                used.criterion(used.compute_pl(dA))
        out_u = used.compute_pl(dB)
        out_f = fresh.compute_pl(dB)
        c.check("history %s: same shape" % "+".join(seq), tuple(out_u.shape) == tuple(out_f.shape))
        c.check("history %s: pl(B) equals fresh hedger" % "+".join(seq), api.tensor_eq(out_u, out_f))
        hu, hf = used.compute_hedge(dB), fresh.compute_hedge(dB)
        c.check("history %s: hedge(B) equals fresh hedger" % "+".join(seq), api.tensor_eq(hu, hf))

    return fn


def cases():
    cs = []
    enc = ("every feature get(None)/get(i)", "BaseDerivative.payoff/spot", "Hedger.compute_hedge/compute_pl/compute_portfolio/get_input",
           "HedgeLoss.forward/cash", "functional pl/payoffs/clamps/risk measures/bs_*", "autogreek.delta", "save_prev_output", "FeatureList.of")
    for f in FEATURES:
        cs.append(Case("feature/%s" % f, feature_case(f, 2, 3), encodes=enc, bounds="N=2 T=3; get(None), get(0..T-1), get(None)"))
    for f in ("variance", "volatility", "underlier_log_spot"):
        cs.append(Case("feature/%s/heston" % f, feature_case(f, 2, 3, "heston"), encodes=enc, bounds="N=2 T=3 spot+variance buffers"))
    for dk in ("european", "lookback"):
        for sw in (False, True):
            cs.append(Case("compute/%s/step=%s" % (dk, sw), computation_case(2, 3, dk, sw), encodes=enc, bounds="N=2 T=3 H=2", timeout=60))
    for dk in ("american_binary", "european_binary", "variance_swap"):
        cs.append(Case("compute/%s" % dk, computation_case(2, 4, dk, True, "heston"), tier="thorough", encodes=enc, bounds="N=2 T=4 H=2", timeout=120))
    for f, k in (("underlier_spot", "brownian"), ("variance", "heston"), ("volatility", "localvol"), ("underlier_log_spot", "brownian")):
        cs.append(Case("passthrough/%s" % f, passthrough_case(f, k), encodes=enc, bounds="N=2 T=3, torch.nn.Identity model, single feature"))
    cs.append(Case("functional", functional_case(), encodes=enc, bounds="tensors up to (2,2,3)", timeout=60))
    for dn in (True, False):
        cs.append(Case("functional/quadratic_cvar/dim=%s" % ("None" if dn else "0"), qcvar_functional_case(dn), encodes=enc + ("quadratic_cvar",),
                       bounds="sample (3,) / (3,2), spread in [1,10), bisect contract stub", timeout=60))
    seqs2 = [("hedgeA",), ("plA", "hedgeB"), ("plA", "plA"), ("inputA", "plB"), ("critA", "hedgeA")]
    for sq in seqs2:
        for sw in (False, True):
            cs.append(Case("history/%s/step=%s" % ("+".join(sq), sw), history_case(sq, sw), encodes=enc,
                           bounds="A: N=2,T=3 European; B: N=1,T=4 lookback", timeout=60))
    for sq in (("plB",), ("plA", "hedgeB")):
        for sw in (False, True):
            cs.append(Case("history/%s/step=%s/module-over-running-max" % ("+".join(sq), sw), history_case(sq, sw, module_max=True), encodes=enc,
                           bounds="A: N=2,T=3 European; B: N=1,T=4 lookback; ModuleOutput over max_log_moneyness/max_moneyness", timeout=60))
    for dk, sw, wl in (("lookback", False, False), ("lookback", True, True), ("european", True, False)):
        cs.append(Case("resimulate/%s/step=%s/listed=%s" % (dk, sw, wl), resimulate_case(dk, sw, wl), encodes=enc,
                       bounds="N=2 T=3; two simulations of the same shape on the same objects vs fresh objects", timeout=60))
    for dk in ("american_binary", "european_binary"):
        for sw in (False, True):
            cs.append(Case("resimulate/%s/step=%s/listed=True" % (dk, sw), resimulate_case(dk, sw, True), tier="thorough", encodes=enc,
                           bounds="N=2 T=3; same-shape re-simulation vs fresh objects", timeout=120))
    cs.append(Case("resimulate/lookback/step=True/listed=True/heston", resimulate_case("lookback", True, True, heston=True), tier="thorough", encodes=enc,
                   bounds="N=2 T=3 spot+variance buffers", timeout=120))
    cs.append(Case("resimulate/lookback/step=False/listed=False/heston", resimulate_case("lookback", False, False, heston=True), encodes=enc,
                   bounds="N=2 T=3 spot+variance buffers", timeout=60))
    for sq in (("priceA",), ("lossA", "hedgeB"), ("fitA",), ("priceA", "fitA"), ("loss2A", "plA")):
        cs.append(Case("history-training/%s" % "+".join(sq), training_history_case(sq), encodes=enc + ("Hedger.price", "Hedger.compute_loss", "Hedger.fit"),
                       bounds="A: N=2,T=3 (simulate stub); B: N=1,T=4 lookback; symbolic linear model, SGD with symbolic lr", timeout=120, max_paths=16))
    import itertools

    for sq in itertools.product(["priceA", "lossA", "fitA", "plA", "hedgeB", "loss2A"], repeat=3):
        if sq.count("fitA") > 1:
            continue
        cs.append(Case("history-training/%s" % "+".join(sq), training_history_case(sq), tier="thorough", encodes=enc + ("Hedger.price", "Hedger.compute_loss", "Hedger.fit"),
                       bounds="sequence length 3 incl. price/compute_loss/fit", timeout=300, max_paths=16))
    ops = ["hedgeA", "plA", "hedgeB", "plB", "inputA", "critA"]
    for sq in itertools.product(ops, repeat=3):
        if sq[0] in ("hedgeB", "plB"):
            continue
        for sw in (False, True):
            cs.append(Case("history/%s/step=%s" % ("+".join(sq), sw), history_case(sq, sw), tier="thorough", encodes=enc,
                           bounds="sequence length 3", timeout=60))
    return cs
