#!/bin/bash
# regress_refactors.sh [glob] [jobs]: every filed behaviour-preserving refactoring must leave the checks quiet.  For each
# /verif/refactorings/<id>: a scratch worktree of /repo HEAD under /tmp/rr/<id> with the patch applied, the quick checks of the properties
# it touches run with PYTHONPATH pointing at the worktree; /repo itself is not touched.  One line per (refactoring, property); every line
# must show rc=0 (a VIOLATION here is a false alarm of the machinery; rc=3 means the engine could not execute or decide the rewritten code).
cd "$(dirname "$0")/.."
GLOB=${1:-*}; JOBS=${2:-3}
bin/bootstrap.sh >/dev/null 2>&1
one() {
  d=$1; id=$(basename $d)
  ps=$(python3 -c "import json; print(' '.join(json.load(open('$d/meta.json'))['properties_checked']))")
  wt=/tmp/rr/$id; rm -rf $wt; mkdir -p /tmp/rr
  git -C /repo worktree add -q --detach $wt HEAD 2>/dev/null || { echo "$id worktree-failed"; return; }
  if git -C $wt apply /verif/$d/patch.diff 2>/dev/null; then
    for P in $ps; do
      out=$(cd /verif && VERIF_EVIDENCE_DIR=/tmp/rr/ev_$id PYTHONPATH=$wt timeout 3000 .venv/bin/python -W ignore -m harness.run $P --tier quick 2>&1); rc=$?
      echo "$id $P rc=$rc violations=$(echo "$out" | grep -c '^VIOLATION') | $(echo "$out" | grep -E '^C[0-9]+ tier' | cut -c1-110)"
      echo "$out" | grep -E "^(VIOLATION|HARNESS-ERROR|UNDECIDED)" | cut -c1-220 | head -4
    done
  else
    echo "$id patch-does-not-apply"
  fi
  git -C /repo worktree remove --force $wt; rm -rf /tmp/rr/ev_$id
}
export -f one
ls -d refactorings/$GLOB/ | xargs -P $JOBS -I{} bash -c 'one {}'
git -C /repo worktree prune
