"""C10 — simulated paths follow the law of the model they are named after (the algebraic part)."""
import sys
from fractions import Fraction

import numpy as np
import torch

from harness.lib import Case
from symtorch import api, ctx as cx, facades, terms as tm
from symtorch import tensor as st
from symtorch.api import elem

META = {
    "stubs": ["randomness is an environment input: torch.randn/rand(_like), Poisson/Exponential/Uniform.sample return fresh symbols constrained "
              "only by their support; the engine= argument of the Brownian-type generators is used directly",
              "generate_cir is stubbed by a symbolic variance path inside the Heston log-spot obligation",
              "local volatility function: uninterpreted sigma(t, S)"],
    "axioms": ["exp add-law / positivity, sqrt, log-exp inverse"],
    "assumptions": ["trusted lemmas: (1) tower property: matching one-step conditional mean/variance from an arbitrary state gives the closed-form "
                    "mean/variance at every horizon; (2) moments of a(b+Z)^2 and of the mass-at-zero/exponential mixture (Andersen 2008); "
                    "(3) E z = 0 makes the Euler local-volatility step a martingale",
                    "CIR: the reference formulas carry the scheme's documented EPSILON guards (max(m^2, tiny), max(m, tiny), max(1-u, tiny)); the moment-matching obligations are stated where the guards are inactive",
                    "NOT decided (statements about distributions of sampled values): laws of randn / randn_antithetic / randn_sobol_boxmuller, "
                    "in-distribution moments beyond the per-step identities, Heston's empirical correlation, rough Bergomi's variance normalisation",
                    "n_paths<=2, n_steps<=4"],
}


class Engine:
    """engine= argument: fresh symbols per call (sym) / model values (concrete), recorded for the oracle"""

    def __init__(self, c):
        self.c = c
        self.draws = []

    def __call__(self, *size, dtype=None, device=None):
        z = torch.randn(*size, dtype=dtype)  # the facade: fresh symbols / replayed values
        self.draws.append(z)
        return z


def brownian_case(N, T, geometric):
    from pfhedge.stochastic import generate_brownian, generate_geometric_brownian

    def fn(c):
        mu, sigma = api.real(c, "mu"), api.real(c, "sigma", nonneg=True)
        dt = api.real(c, "dt", pos=True)
        x0 = api.real(c, "x0", pos=geometric)
        eng = Engine(c)
        f = generate_geometric_brownian if geometric else generate_brownian
        out = f(N, T, init_state=(x0,), sigma=sigma, mu=mu, dt=dt, engine=eng)
        c.check("shape", tuple(out.shape) == (N, T))
        z = eng.draws[0]
        for n in range(N):
            for i in range(T):
                w = sum((elem(z, n, j) for j in range(1, i + 1)), 0)
                if geometric:
                    want = x0 * api.exp(mu * i * dt + sigma * api.sqrt(dt) * w - sigma * sigma * i * dt / 2)
                else:
                    want = x0 + mu * i * dt + sigma * api.sqrt(dt) * w
                c.check("%s[%d,%d] is the exact solution with the supplied normals" % ("gbm" if geometric else "bm", n, i), api.eq(elem(out, n, i), want))
        if T >= 3:
            w = elem(z, 0, 1)
            bad = x0 * api.exp(mu * 2 * dt + sigma * api.sqrt(dt) * w - sigma * sigma * 2 * dt / 2) if geometric else x0 + mu * 2 * dt + sigma * api.sqrt(dt) * w
            c.control("control:increments are not accumulated", api.eq(elem(out, 0, 2), bad))

    return fn


def jump_case(kind, N, T, max_jumps):
    from pfhedge.stochastic import generate_kou_jump, generate_merton_jump

    def fn(c):
        c.env["max_jumps"] = max_jumps
        mu, sigma = api.real(c, "mu"), api.real(c, "sigma", nonneg=True)
        dt = api.real(c, "dt", pos=True)
        s0 = api.real(c, "s0", pos=True)
        lam = api.real(c, "lam", nonneg=True)
        eng = Engine(c)
        if kind == "merton":
            mj, sj = api.real(c, "jump_mean"), api.real(c, "jump_std", nonneg=True)
            out = generate_merton_jump(N, T, init_state=(s0,), mu=mu, sigma=sigma, jump_per_year=lam, jump_mean=mj, jump_std=sj, dt=dt, engine=eng)
            zj, z = eng.draws[0], eng.draws[1]
        else:
            up, dn, pu = api.real(c, "up", pos=True, hi=Fraction(1, 2)), api.real(c, "down", pos=True), api.real(c, "p_up", lo=0, hi=1)
            out = generate_kou_jump(N, T, init_state=(s0,), sigma=sigma, mu=mu, jump_per_year=lam, jump_mean_up=up, jump_mean_down=dn,
                                    jump_up_prob=pu, dt=dt, engine=eng)
            z = eng.draws[0]
        c.check("shape", tuple(out.shape) == (N, T))
        for n in range(N):
            for i in range(T):
                w = sum((elem(z, n, j) for j in range(1, i + 1)), 0)
                if kind == "merton":
                    comp = lam * (api.exp(mj + sj * sj / 2) - 1)
                    if max_jumps == 0:
                        jumps = 0
                    else:
                        njs = c.env["draws"]["nj"][0]
                        jumps = sum((mj * elem(njs, n, j - 1) + elem(zj, n, j - 1) * sj * api.sqrt(elem(njs, n, j - 1)) for j in range(1, i + 1)), 0)
                    want = s0 * api.exp((mu - sigma * sigma / 2 - comp) * i * dt + sigma * api.sqrt(dt) * w + jumps)
                else:
                    eu, ed = 1 / up, 1 / dn
                    m = (1 - pu) * (ed / (ed + 1)) + pu * (eu / (eu - 1)) - 1
                    want = s0 * api.exp((mu - lam * m) * i * dt + sigma * api.sqrt(dt) * w - sigma * sigma * i * dt / 2)
                c.check("%s[%d,%d] = exact GBM solution with the documented compensator%s" % (kind, n, i, "" if max_jumps else " (no jumps drawn)"),
                        api.eq(elem(out, n, i), want))
        # zero intensity: reduces to geometric Brownian motion with the same normals
        if max_jumps == 0:
            for n in range(N):
                i = T - 1
                w = sum((elem(z, n, j) for j in range(1, i + 1)), 0)
                gbm = s0 * api.exp(mu * i * dt + sigma * api.sqrt(dt) * w - sigma * sigma * i * dt / 2)
                c.check("%s with zero intensity equals GBM [%d]" % (kind, n), api.implies(api.eq(lam, 0), api.eq(elem(out, n, i), gbm)))

    return fn


def vasicek_case(T, init_kind):
    from pfhedge.stochastic import generate_vasicek

    def fn(c):
        kappa, theta, sigma = api.real(c, "kappa", pos=True), api.real(c, "theta"), api.real(c, "sigma", nonneg=True)
        dt = api.real(c, "dt", pos=True)
        if init_kind == "default":
            init, x0 = None, theta
        elif init_kind == "zero":
            init, x0 = (0.0,), 0.0
        else:
            x0 = api.real(c, "x0")
            init = (x0,)
        import pfhedge.stochastic.vasicek as V

        real, depth = V.generate_vasicek, [0]

        def counted(*a, **k):  # the function calls itself through its module-level name
            depth[0] += 1
            if depth[0] > 12:
                raise RecursionError("generate_vasicek recursed more than 12 levels deep")
            try:
                return real(*a, **k)
            finally:
                depth[0] -= 1

        V.generate_vasicek = counted
        try:
            out = counted(1, T, init_state=init, kappa=kappa, theta=theta, sigma=sigma, dt=dt)
        finally:
            V.generate_vasicek = real
        c.check("shape", tuple(out.shape) == (1, T))
        c.check("first value is the initial state", api.eq(elem(out, 0, 0), x0))
        for i in range(T - 1):
            xi, xn = elem(out, 0, i), elem(out, 0, i + 1)
            e1 = api.exp(-kappa * dt)
            # one-step conditional law: X_{i+1} = theta + (X_i - theta) e^{-kappa dt} + sigma sqrt((1 - e^{-2 kappa dt})/(2 kappa)) z
            # the noise z is whatever the code drew: compare through the deterministic part and the noise scale
            zi = c.env["draws"]["z"][-1]
            want = theta + (xi - theta) * e1 + sigma * api.sqrt((1 - e1 * e1) / (2 * kappa)) * elem(zi, 0, i)
            c.check("vasicek step %d: exact OU transition around theta" % i, api.eq(xn, want))

    return fn


def cir_case(concrete=None):
    from pfhedge.stochastic import generate_cir

    def fn(c):
        try:
            return body(c)
        except ZeroDivisionError:
            if c.mode == "concrete":
                return  # a replay candidate outside the domain of the float oracle
            raise

    def body(c):
        if concrete is None:
            kappa, theta, sigma = api.real(c, "kappa", pos=True), api.real(c, "theta", pos=True), api.real(c, "sigma", pos=True)
            dt = api.real(c, "dt", pos=True)
        else:
            # non-default parameter values as exact rationals (kappa != 1, monthly step); the state, the normal and the uniform stay symbolic
            # (kept as symbols constrained by equalities, so that the executed and the reference terms stay structurally comparable)
            kappa, theta, sigma, dt = api.real(c, "kappa", pos=True), api.real(c, "theta", pos=True), api.real(c, "sigma", pos=True), api.real(c, "dt", pos=True)
            for sym_, val_ in zip((kappa, theta, sigma, dt), concrete):
                c.assume(api.eq(sym_, Fraction(val_)))
        v0 = api.real(c, "v0", nonneg=True)
        out = generate_cir(1, 2, init_state=(v0,), kappa=kappa, theta=theta, sigma=sigma, dt=dt)
        z, u = elem(c.env["draws"]["z"][-1], 0, 0), elem(c.env["draws"]["u"][-1], 0, 0)
        e1 = api.exp(-kappa * dt)
        m = theta + (v0 - theta) * e1
        s2 = v0 * sigma * sigma * e1 * (1 - e1) / kappa + theta * sigma * sigma * (1 - e1) * (1 - e1) / (2 * kappa)
        EPS = torch.finfo().tiny  # the scheme's documented guards against division by zero
        psi = s2 / api.maxv(m * m, EPS)
        v1 = elem(out, 0, 1)
        c.check("first value is the initial state", api.eq(elem(out, 0, 0), v0))
        # quadratic branch
        b2 = 2 / psi - 1 + api.sqrt(2 / psi) * api.sqrt(2 / psi - 1)
        a = m / (1 + b2)
        quad = a * (api.sqrt(b2) + z) * (api.sqrt(b2) + z)
        c.check("CIR psi <= 1.5: v1 = a (b + Z)^2 with Andersen's a, b", api.implies(api.le(psi, Fraction(3, 2)), api.eq(v1, quad)))
        # exponential branch
        p = (psi - 1) / (psi + 1)
        beta = (1 - p) / api.maxv(m, EPS)
        expo = api.ite(api.gt(u, p), api.log((1 - p) / api.maxv(1 - u, EPS)) / beta, 0)
        c.check("CIR psi > 1.5: v1 = inverse CDF of the mass-at-zero / exponential mixture", api.implies(api.gt(psi, Fraction(3, 2)), api.eq(v1, expo)))
        # the scheme's parameters match the first two conditional moments (moments of a(b+Z)^2: a(1+b^2), 2a^2(1+2b^2);
        # of the mixture: (1-p)/beta, (1-p^2)/beta^2)
        big = api.all_(api.ge(m * m, EPS), api.ge(m, EPS))  # guards inactive
        c.check("quadratic branch matches the conditional mean", api.implies(api.all_(big, api.le(psi, 2)), api.eq(a * (1 + b2), m)))
        c.check("quadratic branch matches the conditional variance", api.implies(api.all_(big, api.le(psi, 2)), api.eq(2 * a * a * (1 + 2 * b2), s2)))
        c.check("exponential branch matches the conditional mean", api.implies(big, api.eq((1 - p) / beta, m)))
        c.check("exponential branch matches the conditional variance", api.implies(big, api.eq((1 - p * p) / (beta * beta), s2)))
        c.check("exponential branch: 0 <= p < 1 for psi >= 1", api.implies(api.ge(psi, 1), api.all_(api.ge(p, 0), api.lt(p, 1))))
        c.control("control:variance of the quadratic branch without the factor 2", api.implies(api.all_(big, api.le(psi, 2)), api.eq(a * a * (1 + 2 * b2), s2)))

    return fn


def heston_case():
    import pfhedge.stochastic.heston as H

    def fn(c):
        kappa, theta, sigma = api.real(c, "kappa", pos=True), api.real(c, "theta", pos=True), api.real(c, "sigma", pos=True)
        rho = api.real(c, "rho", lo=-1, hi=1)
        dt = api.real(c, "dt", pos=True)
        s0 = api.real(c, "s0", pos=True)
        T = 3
        var = api.tensor(c, "var", (1, T), nonneg=True)
        seen = {}

        def fake_cir(**kw):
            seen.update(kw)
            return var

        old = H.generate_cir
        H.generate_cir = fake_cir
        try:
            out = H.generate_heston(1, T, init_state=(s0, api.elem(var, 0, 0)), kappa=kappa, theta=theta, sigma=sigma, rho=rho, dt=dt)
        finally:
            H.generate_cir = old
        z = c.env["draws"]["z"][-1]
        c.check("variance process receives the model parameters", seen.get("kappa") is kappa and seen.get("theta") is theta and seen.get("sigma") is sigma and seen.get("dt") is dt)
        c.check("initial spot", api.eq(elem(out.spot, 0, 0), s0))
        c.check("variance is the CIR path", api.tensor_eq(out.variance, var))
        k0 = -rho * kappa * theta * dt / sigma
        k1 = dt / 2 * (kappa * rho / sigma - Fraction(1, 2)) - rho / sigma
        k2 = dt / 2 * (kappa * rho / sigma - Fraction(1, 2)) + rho / sigma
        k3 = dt / 2 * (1 - rho * rho)
        k4 = k3
        for i in range(T - 1):
            va, vb = elem(var, 0, i), elem(var, 0, i + 1)
            ratio = api.exp(k0 + k1 * va + k2 * vb + api.sqrt(k3 * va + k4 * vb) * elem(z, 0, i))
            c.check("heston step %d: log-spot update is Andersen's eq. (33) with gamma1 = gamma2 = 1/2" % i,
                    api.eq(elem(out.spot, 0, i + 1), elem(out.spot, 0, i) * ratio))
        va, vb = elem(var, 0, 0), elem(var, 0, 1)
        c.control("control:return/variance coupling with the opposite sign of rho",
                  api.eq(elem(out.spot, 0, 1), s0 * api.exp(-k0 + k1 * va + k2 * vb + api.sqrt(k3 * va + k4 * vb) * elem(z, 0, 0))))

    return fn


def localvol_case(T):
    from pfhedge.stochastic import generate_local_volatility_process

    def fn(c):
        dt = api.real(c, "dt", pos=True)
        s0 = api.real(c, "s0", pos=True)

        def sigma_fn(t, s):
            if isinstance(s, st.SymTensor):
                tt = st.terms_of(t)[0]
                return st.SymTensor(st._map(lambda e: tm.uf("sigma", tt, e), s._p), s.dtype)
            return 0.2 + 0.1 * torch.tanh(s - 1.0) + 0.05 * t

        out = generate_local_volatility_process(1, T, sigma_fn, init_state=(s0,), dt=dt)
        z = c.env["draws"]["z"][-1]
        c.check("initial spot", api.eq(elem(out.spot, 0, 0), s0))
        for i in range(T):
            si = elem(out.spot, 0, i)
            if c.mode == "sym":
                sg = api.SymReal(tm.uf("sigma", cx._t(i * dt), cx._t(si)))
            else:
                sg = float(sigma_fn(torch.tensor(i * dt, dtype=torch.float64), torch.tensor([si], dtype=torch.float64))[0])
            c.check("local vol: volatility[%d] = sigma(t_i, S_i)" % i, api.eq(elem(out.volatility, 0, i), sg))
            if i < T - 1:
                c.check("local vol: Euler step %d  S_{i+1} = S_i (1 + sigma(t_i,S_i) sqrt(dt) z_i)" % i,
                        api.eq(elem(out.spot, 0, i + 1), si * (1 + sg * api.sqrt(dt) * elem(z, 0, i))))

    return fn


def cases():
    cs = []
    enc = ("generate_brownian", "generate_geometric_brownian", "generate_merton_jump", "generate_kou_jump", "generate_vasicek", "generate_cir",
           "generate_heston", "generate_local_volatility_process", "cast_state")
    fam = ("basic",)
    for g in (False, True):
        cs.append(Case("%s/N2T3" % ("gbm" if g else "bm"), brownian_case(2, 3, g), encodes=enc, families=fam, bounds="N=2 T=3, symbolic mu, sigma, dt, x0", timeout=60))
        cs.append(Case("%s/N1T4" % ("gbm" if g else "bm"), brownian_case(1, 4, g), tier="thorough", encodes=enc, families=fam, bounds="N=1 T=4", timeout=120))
    cs.append(Case("merton/no-jumps", jump_case("merton", 1, 3, 0), encodes=enc, families=fam, bounds="N=1 T=3, Poisson draws 0", timeout=60))
    cs.append(Case("kou/no-jumps", jump_case("kou", 1, 3, 0), encodes=enc, families=fam, bounds="N=1 T=3, Poisson draws 0", timeout=60, max_paths=16))
    cs.append(Case("merton/jumps<=2", jump_case("merton", 1, 3, 2), encodes=enc, families=fam, bounds="N=1 T=3, Poisson draws in {0,1,2}", timeout=120))
    for k in ("default", "zero", "general"):
        cs.append(Case("vasicek/%s" % k, vasicek_case(3, k), encodes=enc, families=fam, bounds="T=3, initial state %s" % k, timeout=60, max_paths=16,
                       batch=False))
    cs.append(Case("cir/one-step", cir_case(), encodes=enc, families=("basic", "mono", "bounds"), bounds="one step from an arbitrary state v0>=0, both QE branches", timeout=120, batch=False))
    cs.append(Case("cir/one-step/kappa=3,theta=1/25,sigma=1/2,dt=1/12", cir_case(("3", "1/25", "1/2", "1/12")), encodes=enc, families=("basic", "mono", "bounds"),
                   bounds="one step from an arbitrary state, concrete non-default parameters", timeout=120, batch=False))
    cs.append(Case("heston/log-spot", heston_case(), encodes=enc, families=fam, bounds="T=3, symbolic variance path", timeout=120, batch=False))
    cs.append(Case("localvol/T3", localvol_case(3), encodes=enc, families=fam, bounds="T=3, uninterpreted sigma(t,S)", timeout=60))
    return cs
