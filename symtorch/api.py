"""Harness-facing helpers that work in both modes of a run:

* mode 'sym'      : inputs are SymTensors / SymReals, relations are terms for the solver;
* mode 'concrete' : inputs are real float64 tensors / floats taken from a solver model, the very
                    same harness code then runs the *real* pfhedge code on real torch and the
                    relations are evaluated numerically (this is the replay of a counterexample).
"""
from __future__ import annotations

import math
import zlib
from fractions import Fraction

import numpy as np
import torch

from . import ctx as cx
from . import elem as el
from . import tensor as st
from . import terms as tm
from .ctx import SymBool, SymInt, SymReal
from .terms import T

RTOL = 1e-6
ATOL = 1e-9


def _default(name, lo=0.5, hi=1.5):
    return lo + (hi - lo) * (zlib.crc32(name.encode()) % 9973) / 9973.0


class Rel:
    """A relation evaluated in concrete mode: holds + violation margin."""

    def __init__(self, holds, margin=0.0, detail=""):
        self.holds = bool(holds)
        self.margin = float(margin)
        self.detail = detail

    def __bool__(self):
        return self.holds


# ---- inputs ---------------------------------------------------------------------------------------


def tensor(c: cx.Ctx, name, shape, pos=False, nonneg=False, lo=None, hi=None, dtype=torch.float64):
    shape = tuple(shape)
    if c.mode == "sym":
        t = st.sym(name, shape, dtype)
        for x in t._p.reshape(-1):
            v = el.value_term(x)
            if pos:
                c.assume(tm.gt(v, tm.ZERO))
            if nonneg:
                c.assume(tm.ge(v, tm.ZERO))
            if lo is not None:
                c.assume(tm.ge(v, tm.const(lo)))
            if hi is not None:
                c.assume(tm.le(v, tm.const(hi)))
        return t
    out = torch.empty(shape, dtype=dtype)
    if shape == ():
        v = c.values.get(name)
        out[()] = float(v) if v is not None else _default(name)
        _in_domain(c, name, float(out[()]), v is not None, pos, nonneg, lo, hi)
    for idx in np.ndindex(*shape) if shape else []:
        nm = "%s[%s]" % (name, ",".join(map(str, idx)))
        v = c.values.get(nm)
        out[idx] = float(v) if v is not None else _default(nm)
        _in_domain(c, nm, float(out[idx]), v is not None, pos, nonneg, lo, hi)
    c.inputs[name] = shape
    return out


def _in_domain(c, name, v, given, pos, nonneg, lo, hi):
    """concrete mode: a replayed value outside the declared domain of an input invalidates the run (values the
    model leaves open get a default, which is not checked)"""
    if not given:
        return
    bad = (pos and not v > 0) or (nonneg and not v >= 0) or (lo is not None and not v >= float(lo)) or (hi is not None and not v <= float(hi))
    if bad:
        c.assume_failed.append("input %s = %r outside its declared domain" % (name, v))


def real(c: cx.Ctx, name, pos=False, nonneg=False, lo=None, hi=None):
    if c.mode == "sym":
        v = tm.var(name)
        if pos:
            c.assume(tm.gt(v, tm.ZERO))
        if nonneg:
            c.assume(tm.ge(v, tm.ZERO))
        if lo is not None:
            c.assume(tm.ge(v, tm.const(lo)))
        if hi is not None:
            c.assume(tm.le(v, tm.const(hi)))
        c.inputs[name] = None
        return SymReal(v)
    v = c.values.get(name)
    if v is not None:
        _in_domain(c, name, float(v), True, pos, nonneg, lo, hi)
    return float(v) if v is not None else _default(name)


def boolean(c: cx.Ctx, name):
    if c.mode == "sym":
        return SymBool(tm.var(name, "B"))
    return bool(c.values.get(name, False))


# ---- element access / scalar math (polymorphic) ------------------------------------------------------------


def elem(x, *idx):
    """x[idx] as a SymReal (sym) or float (concrete)."""
    if isinstance(x, st.SymTensor):
        e = x._p[idx] if idx else x._p.reshape(-1)[0] if x._p.size == 1 else x._p[()]
        if isinstance(e, el.XReal):
            return e
        return SymBool(e) if e.sort == "B" else SymReal(e)
    if isinstance(x, torch.Tensor):
        v = x[idx] if idx else x
        return v.item()
    return x


def elems(x):
    if isinstance(x, st.SymTensor):
        return [SymBool(e) if isinstance(e, T) and e.sort == "B" else (e if isinstance(e, el.XReal) else SymReal(e)) for e in x._p.reshape(-1)]
    if isinstance(x, torch.Tensor):
        return [v.item() for v in x.reshape(-1)]
    return [x]


def _sym(x):
    return isinstance(x, (SymReal, SymBool, T))


def _tt(x):
    return cx._t(x)


def exp(x):
    return SymReal(tm.exp(_tt(x))) if _sym(x) else math.exp(x)


def log(x):
    return SymReal(tm.log(_tt(x))) if _sym(x) else (math.log(x) if x > 0 else float("nan"))


def sqrt(x):
    return SymReal(tm.sqrt(_tt(x))) if _sym(x) else (math.sqrt(x) if x >= 0 else float("nan"))


def cbrt(x):
    return SymReal(tm.cbrt(_tt(x))) if _sym(x) else (math.copysign(abs(x) ** (1 / 3), x))


def Phi(x):
    return SymReal(tm.Phi(_tt(x))) if _sym(x) else 0.5 * math.erfc(-x / math.sqrt(2))


def phi(x):
    """standard normal density"""
    if _sym(x):
        t = _tt(x)
        return SymReal(tm.mul(tm.named("INV_SQRT_2PI"), tm.exp(tm.scale(tm.mul(t, t), Fraction(-1, 2)))))
    return math.exp(-x * x / 2) / math.sqrt(2 * math.pi)


def cos(x):
    return SymReal(tm.cos(_tt(x))) if _sym(x) else math.cos(x)


def sin(x):
    return SymReal(tm.sin(_tt(x))) if _sym(x) else math.sin(x)


def PI(c):
    return SymReal(tm.named("PI")) if c.mode == "sym" else math.pi


def absv(x):
    return abs(x)


def maxv(*xs):
    if any(_sym(x) for x in xs):
        r = _tt(xs[0])
        for x in xs[1:]:
            r = tm.max_(r, _tt(x))
        return SymReal(r)
    return max(xs)


def minv(*xs):
    if any(_sym(x) for x in xs):
        r = _tt(xs[0])
        for x in xs[1:]:
            r = tm.min_(r, _tt(x))
        return SymReal(r)
    return min(xs)


def ite(cnd, a, b):
    if _sym(cnd) or _sym(a) or _sym(b):
        ct = cnd.t if isinstance(cnd, SymBool) else (cnd if isinstance(cnd, T) else (tm.TRUE if cnd else tm.FALSE))
        return SymReal(tm.ite(ct, _tt(a), _tt(b)))
    if isinstance(cnd, Rel):
        cnd = cnd.holds
    return a if cnd else b


def floorv(x):
    return SymInt(tm.floor(_tt(x))) if _sym(x) else math.floor(x)


def ceilv(x):
    return SymInt(tm.ceil(_tt(x))) if _sym(x) else math.ceil(x)


# ---- relations -------------------------------------------------------------------------------------


def _scale(a, b):
    return 1.0 + abs(a) + abs(b)


def eq(a, b, tol=None):
    if _sym(a) or _sym(b):
        return SymBool(tm.eq(_tt(a), _tt(b)))
    if isinstance(a, bool) or isinstance(b, bool):
        return Rel(bool(a) == bool(b), 1.0)
    if a != a or b != b:
        return Rel(False, float("inf"), "nan")
    if math.isinf(a) or math.isinf(b):
        return Rel(a == b, float("inf"))
    tol = tol or RTOL
    d = abs(a - b)
    return Rel(d <= tol * _scale(a, b), d / _scale(a, b), "%r vs %r" % (a, b))


def le(a, b, tol=None):
    if _sym(a) or _sym(b):
        return SymBool(tm.le(_tt(a), _tt(b)))
    if a != a or b != b:
        return Rel(False, float("inf"), "nan")
    tol = tol or RTOL
    d = a - b
    return Rel(d <= tol * _scale(a, b), d / _scale(a, b), "%r <= %r" % (a, b))


def lt(a, b, tol=None):
    if _sym(a) or _sym(b):
        return SymBool(tm.lt(_tt(a), _tt(b)))
    if a != a or b != b:
        return Rel(False, float("inf"), "nan")
    tol = tol or RTOL
    d = a - b
    return Rel(d < -tol * _scale(a, b) or a < b, max(d, 0.0) / _scale(a, b), "%r < %r" % (a, b))


def ge(a, b, tol=None):
    return le(b, a, tol)


def gt(a, b, tol=None):
    return lt(b, a, tol)


def all_(*rels):
    if any(isinstance(r, (SymBool, T)) for r in rels):
        return SymBool(tm.and_(*[cx._as_term(r) for r in rels]))
    holds = all(bool(r) for r in rels)
    marg = max([r.margin for r in rels if isinstance(r, Rel) and not r.holds] or [0.0])
    return Rel(holds, marg, "; ".join(r.detail for r in rels if isinstance(r, Rel) and not r.holds))


def any_(*rels):
    if any(isinstance(r, (SymBool, T)) for r in rels):
        return SymBool(tm.or_(*[cx._as_term(r) for r in rels]))
    holds = any(bool(r) for r in rels)
    return Rel(holds, 0.0 if holds else min([r.margin for r in rels if isinstance(r, Rel)] or [1.0]))


def not_(r):
    if isinstance(r, (SymBool, T)):
        return SymBool(tm.not_(cx._as_term(r)))
    return Rel(not bool(r), 1.0)


def implies(a, b):
    return any_(not_(a), b)


def tensor_eq(a, b):
    """elementwise equality of two tensors of the same shape"""
    ea, eb = elems(a), elems(b)
    if len(ea) != len(eb) or tuple(a.shape) != tuple(b.shape):
        return Rel(False, float("inf"), "shape %s vs %s" % (tuple(a.shape), tuple(b.shape)))
    return all_(*[eq(x, y) for x, y in zip(ea, eb)])


def same(a, b, tol=None):
    """Equality that also covers extended-real elements: equal special flags, and equal values where
    finite (NaN is 'same' as NaN)."""
    if isinstance(a, el.XReal) or isinstance(b, el.XReal):
        a, b = el.X(a if not isinstance(a, SymReal) else a.t), el.X(b if not isinstance(b, SymReal) else b.t)
        return SymBool(tm.and_(tm.iff(a.nan, b.nan), tm.iff(a.pinf, b.pinf), tm.iff(a.ninf, b.ninf),
                               tm.implies(tm.and_(a.finite, b.finite), tm.eq(a.val, b.val))))
    if _sym(a) or _sym(b):
        return eq(a, b)
    if isinstance(a, float) and isinstance(b, float) and a != a and b != b:
        return Rel(True)
    return eq(a, b, tol)


def tensor_same(a, b):
    ea, eb = elems(a), elems(b)
    if len(ea) != len(eb) or tuple(a.shape) != tuple(b.shape):
        return Rel(False, float("inf"), "shape %s vs %s" % (tuple(a.shape), tuple(b.shape)))
    return all_(*[same(x, y) for x, y in zip(ea, eb)])


def finite(x):
    """not NaN and not infinite"""
    if isinstance(x, el.XReal):
        return SymBool(x.finite)
    if _sym(x):
        return SymBool(tm.TRUE)
    return Rel(math.isfinite(x), 1.0, "non-finite %r" % x)


def notnan(x):
    if isinstance(x, el.XReal):
        return SymBool(tm.not_(x.nan))
    if _sym(x):
        return SymBool(tm.TRUE)
    return Rel(x == x, 1.0, "nan")
