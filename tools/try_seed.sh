#!/bin/bash
# try_seed.sh <patch.diff> <Cxx> [tier] [extra vcheck args]: apply a seeded change to /repo, run the check, undo it straight afterwards.
PATCH=$1; P=$2; TIER=${3:-quick}; if [ $# -ge 3 ]; then shift 3; else shift $#; fi
cd /repo && git diff --quiet || { echo "repo dirty"; exit 9; }
git -C /repo apply "$PATCH" || { echo "patch does not apply"; exit 8; }
cd /verif && timeout 3000 bin/vcheck $P --tier $TIER "$@" > /tmp/try_seed.$$.out 2>&1; RC=$?
git -C /repo checkout -- .
grep -c VIOLATION /tmp/try_seed.$$.out | sed "s/^/violations=/"
grep -v "^ \|^Trace\|^$" /tmp/try_seed.$$.out | cut -c1-220 | tail -6
rm -f /tmp/try_seed.$$.out
echo "exit=$RC"
