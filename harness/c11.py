"""C11 — simulated buffers are well-formed for every generator and instrument."""
from fractions import Fraction

import numpy as np
import torch

from harness.lib import Case
from symtorch import api, ctx as cx, elem as el, facades, terms as tm
from symtorch import tensor as st
from symtorch.api import elem

META = {
    "stubs": ["randomness: fresh symbols constrained only by their support (normals: any finite real; uniforms in [0,1); Poisson counts in "
              "{0..max_jumps}; exponentials > 0; the bivariate normal increments of rough Bergomi: any finite reals)",
              "local volatility function: 0.2 + S/10 (a positive, finite function of the state)"],
    "axioms": ["extended-real element model (NaN / +-inf flags with IEEE-754 rules, exact arithmetic for finite values); exp > 0; exp/sqrt/log bounds"],
    "assumptions": ["dtype / device and finite overflow or underflow are outside the claim (the values are exact reals with special-value flags)",
                    "admissible parameters: sigma >= 0 (CIR/Heston: sigma > 0, kappa > 0, theta > 0, |rho| <= 1), dt > 0, initial price > 0, initial variance >= 0",
                    "n_paths in {1,2}, n_steps in {1,2,3}; scalar initial states"],
}


def val(e):
    return api.SymReal(e.val) if isinstance(e, el.XReal) else e


def check_common(c, name, out, N, T, init=None, positive=False, nonneg=False, f32=False):
    c.check("%s shape" % name, tuple(out.shape) == (N, T))
    for n in range(N):
        if init is not None and not f32:
            c.check("%s first column equals the initial state [%d]" % (name, n), api.all_(api.finite(elem(out, n, 0)), api.eq(val(elem(out, n, 0)), init)))
        elif init is not None:
            # documented defaults are Python floats, which cast_state routes through float32: equal up to float32 precision
            c.check("%s first column equals the default initial state (to float32 precision) [%d]" % (name, n),
                    api.all_(api.finite(elem(out, n, 0)), api.le(api.absv(val(elem(out, n, 0)) - init), Fraction(1, 10 ** 6))))
        for i in range(T):
            e = elem(out, n, i)
            c.check("%s[%d,%d] finite" % (name, n, i), api.finite(e))
            if positive:
                c.check("%s[%d,%d] > 0" % (name, n, i), api.gt(val(e), 0))
            if nonneg:
                c.check("%s[%d,%d] >= 0" % (name, n, i), api.ge(val(e), 0))


def generator_case(kind, N, T, default_init=False):
    import pfhedge.stochastic as S

    def fn(c):
        try:
            return body(c)
        except ZeroDivisionError:
            if c.mode == "concrete":
                return
            raise

    def body(c):
        c.env["max_jumps"] = 1
        dt = api.real(c, "dt", pos=True)
        mu = api.real(c, "mu")
        sigma = api.real(c, "sigma", pos=True)
        if kind == "brownian":
            x0 = api.real(c, "x0")
            out = S.generate_brownian(N, T, init_state=(x0,) if not default_init else (0.0,), sigma=sigma, mu=mu, dt=dt)
            check_common(c, kind, out, N, T, init=x0 if not default_init else 0)
        elif kind == "geometric_brownian":
            s0 = api.real(c, "s0", pos=True)
            out = S.generate_geometric_brownian(N, T, init_state=(s0,) if not default_init else (1.0,), sigma=sigma, mu=mu, dt=dt)
            check_common(c, kind, out, N, T, init=s0 if not default_init else 1, positive=True)
        elif kind == "merton":
            s0 = api.real(c, "s0", pos=True)
            out = S.generate_merton_jump(N, T, init_state=(s0,) if not default_init else (1.0,), mu=mu, sigma=sigma,
                                         jump_per_year=api.real(c, "lam", nonneg=True), jump_mean=api.real(c, "jm"),
                                         jump_std=api.real(c, "js", nonneg=True), dt=dt)
            check_common(c, kind, out, N, T, init=s0 if not default_init else 1, positive=True)
        elif kind == "kou":
            s0 = api.real(c, "s0", pos=True)
            out = S.generate_kou_jump(N, T, init_state=(s0,) if not default_init else (1.0,), sigma=sigma, mu=mu,
                                      jump_per_year=api.real(c, "lam", nonneg=True), jump_mean_up=api.real(c, "up", pos=True, hi=Fraction(1, 2)),
                                      jump_mean_down=api.real(c, "down", pos=True), jump_up_prob=api.real(c, "pup", lo=0, hi=1), dt=dt)
            check_common(c, kind, out, N, T, init=s0 if not default_init else 1, positive=True)
        elif kind == "vasicek":
            theta = api.real(c, "theta")
            x0 = api.real(c, "x0")
            out = S.generate_vasicek(N, T, init_state=(x0,) if not default_init else None, kappa=api.real(c, "kappa", pos=True), theta=theta,
                                     sigma=sigma, dt=dt)
            check_common(c, kind, out, N, T, init=x0 if not default_init else theta)
        elif kind == "cir":
            theta = api.real(c, "theta", pos=True)
            v0 = api.real(c, "v0", nonneg=True)
            _regular_cir(c, api.real(c, "kappa", pos=True), theta, sigma, dt, [v0 if not default_init else theta])
            out = S.generate_cir(N, T, init_state=(v0,) if not default_init else None, kappa=api.real(c, "kappa", pos=True), theta=theta,
                                 sigma=sigma, dt=dt)
            check_common(c, kind, out, N, T, init=v0 if not default_init else theta, nonneg=True)
        elif kind == "heston":
            theta = api.real(c, "theta", pos=True)
            s0, v0 = api.real(c, "s0", pos=True), api.real(c, "v0", nonneg=True)
            import pfhedge.stochastic.heston as HM

            real_cir = HM.generate_cir

            def cir_stub(n_paths, n_steps, init_state=None, **kw):
                # the CIR step itself is covered by cir/inductive-step and gen/cir/*: here a non-negative finite path with the requested start
                v = api.tensor(c, "var", (n_paths, n_steps), nonneg=True)
                if isinstance(v, st.SymTensor):
                    v._p[:, 0] = st.payload(init_state[0]).reshape(-1)[0]
                else:
                    v[:, 0] = init_state[0]
                return v

            HM.generate_cir = cir_stub
            try:
                out = S.generate_heston(N, T, init_state=(s0, v0) if not default_init else None, kappa=api.real(c, "kappa", pos=True), theta=theta,
                                        sigma=sigma, rho=api.real(c, "rho", lo=-1, hi=1), dt=dt)
            finally:
                HM.generate_cir = real_cir
            check_common(c, "heston.spot", out.spot, N, T, init=s0 if not default_init else 1, positive=True)
            check_common(c, "heston.variance", out.variance, N, T, init=v0 if not default_init else theta, nonneg=True)
            for n in range(N):
                for i in range(T):
                    vv, vo = elem(out.volatility, n, i), elem(out.variance, n, i)
                    c.check("heston volatility^2 = variance [%d,%d]" % (n, i), api.all_(api.ge(val(vv), 0), api.eq(val(vv) * val(vv), val(vo))))
        elif kind == "rough_bergomi":
            s0, v0 = api.real(c, "s0", pos=True), api.real(c, "v0", pos=True)
            out = S.generate_rough_bergomi(N, T, init_state=(s0, v0) if not default_init else None, alpha=-0.4, rho=-0.9, eta=1.9, xi=0.04, dt=1 / 250)
            check_common(c, "rbergomi.spot", out.spot, N, T, init=s0 if not default_init else 1, positive=True)
            check_common(c, "rbergomi.variance", out.variance, N, T, init=v0 if not default_init else Fraction(0.04), positive=True, f32=default_init)
        elif kind == "local_volatility":
            s0 = api.real(c, "s0", pos=True)
            out = S.generate_local_volatility_process(N, T, lambda t, s: 0.2 + s * 0 + t / 10, init_state=(s0,) if not default_init else (1.0,), dt=dt)
            check_common(c, "localvol.spot", out.spot, N, T, init=s0 if not default_init else 1)
            check_common(c, "localvol.volatility", out.volatility, N, T)
            for n in range(N):
                for i in range(T):
                    c.check("local volatility variance = volatility^2 [%d,%d]" % (n, i),
                            api.eq(val(elem(out.variance, n, i)), val(elem(out.volatility, n, i)) * val(elem(out.volatility, n, i))))

    return fn


def _regular_cir(c, kappa, theta, sigma, dt, vs):
    """exclude astronomically dispersed states (psi > 1e30) where the exact-real model leaves the range of the EPSILON guards"""
    e1 = api.exp(-kappa * dt)
    for v in vs:
        m = theta + (v - theta) * e1
        s2 = v * sigma * sigma * e1 * (1 - e1) / kappa + theta * sigma * sigma * (1 - e1) * (1 - e1) / (2 * kappa)
        c.assume(api.le(s2, m * m * 10 ** 30))


def tensor_init_case(kind):
    """a tensor passed as initial state is left untouched, and a second simulation from it starts at the same value"""
    import pfhedge.stochastic as S

    def fn(c):
        c.env["max_jumps"] = 0
        dt = api.real(c, "dt", pos=True)
        sigma = api.real(c, "sigma", pos=True)
        theta = api.real(c, "theta", pos=True)
        kappa = api.real(c, "kappa", pos=True)
        x0 = api.tensor(c, "x0", (), pos=True)
        keep = x0.clone()
        gens = {
            "vasicek": lambda: S.generate_vasicek(1, 2, init_state=(x0,), kappa=kappa, theta=theta, sigma=sigma, dt=dt),
            "cir": lambda: S.generate_cir(1, 2, init_state=(x0,), kappa=kappa, theta=theta, sigma=sigma, dt=dt),
            "geometric_brownian": lambda: S.generate_geometric_brownian(1, 2, init_state=(x0,), sigma=sigma, dt=dt),
            "brownian": lambda: S.generate_brownian(1, 2, init_state=(x0,), sigma=sigma, dt=dt),
            "merton": lambda: S.generate_merton_jump(1, 2, init_state=(x0,), sigma=sigma, dt=dt),
            "kou": lambda: S.generate_kou_jump(1, 2, init_state=(x0,), sigma=sigma, dt=dt),
            "local_volatility": lambda: S.generate_local_volatility_process(1, 2, lambda t, s: 0.2 + s * 0, init_state=(x0,), dt=dt).spot,
        }
        if kind == "cir":
            _regular_cir(c, kappa, theta, sigma, dt, [val(elem(x0))])
        first = gens[kind]()
        c.check("%s: the caller's initial-state tensor is untouched" % kind, api.same(elem(x0), elem(keep)))
        second = gens[kind]()
        c.check("%s: a second simulation from the same tensor starts at the same value" % kind, api.same(elem(second, 0, 0), elem(keep)))
        c.check("%s: first simulation starts at the requested value" % kind, api.same(elem(first, 0, 0), elem(keep)))

    return fn


def cir_step_case():
    """inductive step: v_i >= 0 => v_{i+1} >= 0 and not NaN on both QE branches; Heston's square-root argument is non-negative"""
    import pfhedge.stochastic as S

    def fn(c):
        kappa, theta, sigma = api.real(c, "kappa", pos=True), api.real(c, "theta", pos=True), api.real(c, "sigma", pos=True)
        dt = api.real(c, "dt", pos=True)
        v0 = api.real(c, "v0", nonneg=True)
        _regular_cir(c, kappa, theta, sigma, dt, [v0])
        out = S.generate_cir(1, 2, init_state=(v0,), kappa=kappa, theta=theta, sigma=sigma, dt=dt)
        e = elem(out, 0, 1)
        c.check("CIR step: next variance is finite", api.finite(e))
        c.check("CIR step: next variance is non-negative", api.ge(val(e), 0))
        rho = api.real(c, "rho", lo=-1, hi=1)
        va, vb = api.real(c, "va", nonneg=True), api.real(c, "vb", nonneg=True)
        k3 = dt / 2 * (1 - rho * rho)
        c.check("Heston: argument of the square root is non-negative", api.ge(k3 * va + k3 * vb, 0))
        c.control("control:next variance is strictly positive", api.gt(val(e), 0))

    return fn


PRIMS = ["BrownianStock", "HestonStock", "CIRRate", "VasicekRate", "MertonJumpStock", "KouJumpStock", "RoughBergomiStock", "LocalVolatilityStock"]


def instrument_case(cls_name):
    def fn(c):
        import pfhedge.instruments as I

        c.env["max_jumps"] = 1
        cls = getattr(I, cls_name)
        with facades.real_torch():
            if cls_name == "LocalVolatilityStock":
                p = cls(sigma_fn=lambda t, s: 0.2 + s * 0 + t / 10, dt=0.5)
            elif cls_name in ("BrownianStock", "MertonJumpStock", "KouJumpStock"):
                p = cls(sigma=api.real(c, "sigma", pos=True), dt=0.5)
            else:
                p = cls(dt=0.5)
        # default initial state, horizon 1.0 -> 3 time points
        p.simulate(n_paths=2, time_horizon=1.0)
        first = dict(p.named_buffers())
        shapes = {k: tuple(v.shape) for k, v in first.items()}
        c.check("all buffers have shape (n_paths, n_steps)", all(s == (2, 3) for s in shapes.values()) and len(shapes) >= 1)
        d = p.default_init_state
        # (Python-float states are routed through float32 by cast_state: equal up to float32 precision)
        d0 = float(d[0])
        c.check("spot starts at the documented default", api.le(api.absv(val(elem(p.spot, 0, 0)) - Fraction(d0)), Fraction(abs(d0)) / 10 ** 6))
        for k, v in first.items():
            for e in api.elems(v):
                c.check("buffer %s finite" % k, api.finite(e))
        if hasattr(p, "variance") and hasattr(p, "volatility"):
            for n in range(2):
                for i in range(3):
                    vo, va = val(elem(p.volatility, n, i)), val(elem(p.variance, n, i))
                    c.check("volatility = sqrt(variance) [%d,%d]" % (n, i), api.all_(api.ge(vo, 0), api.eq(vo * vo, api.maxv(va, 0))))
        # simulate again with another size and horizon and a non-default initial state: everything is replaced
        init = (api.real(c, "s0", pos=True),) + tuple(api.real(c, "i%d" % k, pos=True) for k in range(1, len(d)))
        p.simulate(n_paths=1, time_horizon=0.5, init_state=init)
        second = dict(p.named_buffers())
        c.check("same buffers after re-simulation", set(second) == set(first))
        c.check("re-simulated buffers all have the new shape", all(tuple(v.shape) == (1, 2) for v in second.values()))
        # ("replace the previous ones entirely": no buffer of the first simulation survives -- same names, all of the new shape;
        #  whether the tensor objects are new or resized in place is not part of the property)
        c.check("first column is the requested initial state", api.eq(val(elem(p.spot, 0, 0)), init[0]))
        if len(d) > 1 and "variance" in second:
            c.check("initial variance is the requested one", api.eq(val(elem(second["variance"], 0, 0)), init[1]))
        if hasattr(p, "variance") and hasattr(p, "volatility"):
            # ... and a third time with the *same* shape: nothing derived from the previous paths may survive (a volatility cached
            # per shape would)
            _ = p.volatility
            init3 = (api.real(c, "s0b", pos=True),) + tuple(api.real(c, "j%d" % k, pos=True) for k in range(1, len(d)))
            p.simulate(n_paths=1, time_horizon=0.5, init_state=init3)
            for i in range(2):
                vo, va = val(elem(p.volatility, 0, i)), val(elem(p.variance, 0, i))
                c.check("after a same-shape re-simulation: volatility = sqrt(variance) [0,%d]" % i,
                        api.all_(api.ge(vo, 0), api.eq(vo * vo, api.maxv(va, 0))))
            c.check("after a same-shape re-simulation: first column is the new initial state", api.eq(val(elem(p.spot, 0, 0)), init3[0]))

    return fn


def derived_state_case(cls_name):
    """volatility / variance read from an instrument always belong to its *current* buffers: simulate (generator replaced by a stub that
    returns fresh symbolic series), read the derived quantities, simulate again with the same shape, read again"""
    import importlib

    from harness.c13 import PRIMARIES, Recorder

    modname, gen, fields = PRIMARIES[cls_name]

    def fn(c):
        mod = importlib.import_module("pfhedge.instruments.primary." + modname)
        cls = getattr(mod, cls_name)
        rec = Recorder(c, fields)
        old = getattr(mod, gen)
        setattr(mod, gen, rec)
        try:
            with facades.real_torch():
                p = cls(dt=0.5)
            for rnd in (1, 2, 3):
                p.simulate(n_paths=1, time_horizon=0.5)
                vol, var = p.volatility, p.variance
                c.check("round %d: shapes" % rnd, tuple(vol.shape) == (1, 2) and tuple(var.shape) == (1, 2))
                for i in range(2):
                    va_buf = val(elem(p.get_buffer("variance"), 0, i))
                    vo, va = val(elem(vol, 0, i)), val(elem(var, 0, i))
                    c.check("round %d: variance is the current buffer [%d]" % (rnd, i), api.eq(va, va_buf))
                    c.check("round %d: volatility = sqrt(max(variance, 0)) of the current buffer [%d]" % (rnd, i),
                            api.all_(api.ge(vo, 0), api.eq(vo * vo, api.maxv(va_buf, 0))))
        finally:
            setattr(mod, gen, old)

    return fn


def cases():
    cs = []
    enc = ("generate_brownian", "generate_geometric_brownian", "generate_merton_jump", "generate_kou_jump", "generate_vasicek", "generate_cir",
           "generate_heston", "generate_rough_bergomi", "generate_local_volatility_process", "cast_state") + tuple("%s.simulate" % p for p in PRIMS) + \
          ("BasePrimary.register_buffer/named_buffers",)
    fam = ("basic", "mono", "bounds")
    kinds = ["brownian", "geometric_brownian", "merton", "kou", "vasicek", "cir", "heston", "rough_bergomi", "local_volatility"]
    for k in kinds:
        cs.append(Case("gen/%s/N1T2" % k, generator_case(k, 1, 2), xmode=True, encodes=enc, families=fam, batch=False, timeout=120, max_paths=32,
                       bounds="n_paths=1 n_steps=2, symbolic parameters and initial state"))
        cs.append(Case("gen/%s/default-init/N2T3" % k, generator_case(k, 2, 3, default_init=True), xmode=True, encodes=enc, families=fam, batch=False,
                       timeout=300, max_paths=32, bounds="n_paths=2 n_steps=3, default initial state", tier="thorough" if k in ("heston", "kou", "rough_bergomi") else "quick")) if k != "cir" else \
            cs.append(Case("gen/cir/default-init/N2T2", generator_case(k, 2, 2, default_init=True), xmode=True, encodes=enc, families=fam, batch=False,
                           timeout=300, max_paths=32, bounds="n_paths=2 n_steps=2, default initial state (a second QE step from a symbolic state is the inductive-step case)", tier="thorough"))
        cs.append(Case("gen/%s/N1T1" % k, generator_case(k, 1, 1), xmode=True, encodes=enc, families=fam, batch=False, timeout=60, max_paths=32,
                       bounds="n_steps=1"))
    for k in ("vasicek", "cir", "geometric_brownian", "brownian", "merton", "kou", "local_volatility"):
        cs.append(Case("tensor-init/%s" % k, tensor_init_case(k), xmode=True, encodes=enc, families=fam, batch=False, timeout=120, max_paths=32,
                       bounds="0-dim tensor initial state re-used for two simulations"))
    for p in ("HestonStock", "RoughBergomiStock"):
        cs.append(Case("derived-state/%s" % p, derived_state_case(p), xmode=True, encodes=enc, families=fam, batch=False, timeout=60,
                       bounds="generator stub with fresh symbolic (spot, variance) series; three simulations of the same shape (1,2)"))
    cs.append(Case("cir/inductive-step", cir_step_case(), xmode=True, encodes=enc, families=fam, batch=False, timeout=120, bounds="one step from any v>=0"))
    for p in PRIMS:
        cs.append(Case("instrument/%s" % p, instrument_case(p), xmode=True, encodes=enc, families=fam, batch=False, timeout=300, max_paths=32,
                       bounds="dt=0.5; simulate(2 paths, horizon 1.0) then simulate(1 path, horizon 0.5, symbolic initial state)",
                       tier="quick" if p not in ("HestonStock", "RoughBergomiStock", "KouJumpStock") else "thorough"))
    return cs
