"""Case runner: symbolic execution of a harness function over all paths, discharge of its goals by
the solver, replay of counterexamples on the real code, evidence and exit codes."""
from __future__ import annotations

import fnmatch
import hashlib
import json
import math
import multiprocessing as mp
import os
import sys
import time
import traceback
from fractions import Fraction

ROOT = os.path.dirname(os.path.dirname(os.path.abspath(__file__)))
sys.path.insert(0, ROOT)

import torch  # noqa: E402

from symtorch import api, ctx as cx, facades, smt, terms as tm  # noqa: E402
from symtorch import tensor as st  # noqa: E402
from symtorch.ctx import Ctx, EngineUnsupported, ExplorationBound  # noqa: E402

EXIT_OK, EXIT_VIOLATION, EXIT_USAGE, EXIT_HARNESS = 0, 1, 2, 3


class Case:
    def __init__(self, name, fn, tier="quick", timeout=30.0, xmode=False, families=("basic", "mono", "bounds"),
                 ack_uf=False, max_paths=64, expect_exc=(), check_side=False, batch=True, env=None,
                 encodes=(), bounds="", margin=1e-3, wall=600, decide_timeout=10.0, tactic=None,
                 allow_unreachable=False):
        self.name = name
        self.fn = fn
        self.tier = tier
        self.timeout = timeout
        self.xmode = xmode
        self.families = families
        self.ack_uf = ack_uf
        self.max_paths = max_paths
        self.expect_exc = tuple(expect_exc)
        self.check_side = check_side
        self.batch = batch
        self.env = env or {}
        self.encodes = tuple(encodes)
        self.bounds = bounds
        self.margin = margin
        self.wall = wall
        self.decide_timeout = decide_timeout
        self.tactic = tactic
        self.allow_unreachable = allow_unreachable


# ---------------------------------------------------------------------------------------------


def margin_negation(goal, m, _memo=None):
    """A strengthened negation of `goal`: violated by at least m (for eq/le/lt shapes).  Memoised over the term DAG
    (the definedness formulas of the extended-real model share sub-terms heavily)."""
    if _memo is None:
        _memo = {}
    key = id(goal)
    if key in _memo:
        return _memo[key]
    op = goal.op
    M = tm.const(Fraction(m).limit_denominator(10 ** 9))
    if op == "and":
        r = tm.or_(*[margin_negation(a, m, _memo) for a in goal.args])
    elif op == "eq0":
        d = goal.args[0]
        r = tm.or_(tm.ge(d, M), tm.le(d, tm.neg(M)))
    elif op in ("le0", "lt0"):
        r = tm.ge(goal.args[0], M)
    elif op == "not" and goal.args[0].op == "and":
        # goal = d1 or d2 or ... (an implication): every disjunct is violated, each with the margin
        r = tm.and_(*[margin_negation(tm.not_(l), m, _memo) for l in goal.args[0].args])
    else:
        r = tm.not_(goal)
    _memo[key] = r
    return r


def _model_json(model):
    out = {}
    for k, v in model.items():
        if k.startswith("AT.") or k.startswith("NC."):
            continue
        if isinstance(v, Fraction):
            out[k] = float(v)
        elif isinstance(v, bool):
            out[k] = v
        elif v is None:
            continue
        else:
            out[k] = float(v)
    return out


def run_concrete(case: Case, values):
    """Run the harness function on real torch tensors with the given input values."""
    c = Ctx(mode="concrete", values=values, xmode=False)
    c.env.update(case.env)
    old = cx.CUR
    cx.CUR = c
    exc = None
    old_dtype = torch.get_default_dtype()
    torch.set_default_dtype(torch.float64)  # replays run the real code in float64
    try:
        with facades.patched():
            try:
                case.fn(c)
            except Exception as e:  # noqa: BLE001
                if type(e).__name__ != "NotElementwise":
                    exc = e
    finally:
        cx.CUR = old
        torch.set_default_dtype(old_dtype)
    return c, exc


def replay_goal(case: Case, values, goal_name):
    c, exc = run_concrete(case, values)
    if c.assume_failed:
        return {"reached": False, "reproduced": False, "detail": "inputs outside the assumed domain: %s" % "; ".join(c.assume_failed[:3]),
                "exc": repr(exc) if exc else None, "exc_type": None, "outside_domain": True}
    for g in c.goals:
        if g.name == goal_name:
            r = g.term
            holds = bool(r)
            return {"reached": True, "reproduced": not holds, "detail": getattr(r, "detail", ""),
                    "margin": getattr(r, "margin", None), "exc": repr(exc) if exc else None}
    rp = {"reached": False, "reproduced": False, "detail": "goal not reached in concrete run",
          "exc": repr(exc) if exc else None, "exc_type": type(exc).__name__ if exc else None}
    if exc is not None and not isinstance(exc, case.expect_exc):
        # The symbolic execution reached this obligation with a value that violates it; on the same inputs (inside the declared
        # domain) the real code raises from a frame of the code under test before the obligation is reached.  The real code does
        # not deliver the value the property speaks of: `raised_in_repo` lets an exact solver model count as a witness.
        frames = traceback.extract_tb(exc.__traceback__)
        rp["raised_in_repo"] = any("/pfhedge/" in f.filename for f in frames)
    return rp


def _solve_goal(case, hyps, goal_term, timeout=None):
    # cheap first: with every non-linear monomial and special function opaque (a weakening, so `unsat` is sound)
    cross = os.environ.get("VERIF_CROSS") == "1"
    r0 = smt.solve(hyps + [tm.not_(goal_term)], timeout_s=min(case.timeout, 5.0), want_model=False, linearize=True, keep_smt2=cross)
    if r0.status == "unsat":
        if cross:
            smt.cross_check(r0)
        return r0
    r = smt.solve(hyps + [tm.not_(goal_term)], timeout_s=timeout or case.timeout, families=case.families,
                  ack_uf=case.ack_uf, tactic=case.tactic, keep_smt2=cross)
    if cross:
        smt.cross_check(r)
    return r


class _WallClock(Exception):
    pass


def run_case(case: Case):
    import signal

    def _alarm(signum, frame):
        raise ExplorationBound("case exceeded its wall-clock budget of %ds" % case.wall)

    try:
        signal.signal(signal.SIGALRM, _alarm)
        signal.alarm(int(case.wall))
    except ValueError:
        pass
    try:
        return _run_case(case)
    finally:
        try:
            signal.alarm(0)
        except ValueError:
            pass


def _run_case(case: Case):
    t0 = time.time()
    out = {"case": case.name, "paths": 0, "goals": [], "errors": [], "unreachable_paths": 0,
           "exceptions": [], "encodes": list(case.encodes), "bounds": case.bounds, "notes": []}
    smt.STATS.update({"queries": 0, "time": 0.0, "unsat": 0, "sat": 0, "unknown": 0})
    smt.CROSS.update({"asked": 0, "agree": 0, "cvc5_unknown": 0, "disagree": []})
    seen_goal_keys = set()
    try:
        with facades.patched():
            def fn(c):
                c.env.update(case.env)
                try:
                    return case.fn(c)
                except Exception as e:  # noqa: BLE001
                    if type(e).__name__ == "NotElementwise":
                        return None  # the contract stub already registered the violated call-site precondition
                    raise

            for c, outcome in cx.explore(fn, max_paths=case.max_paths, xmode=case.xmode,
                                         check_side=case.check_side, decide_timeout=case.decide_timeout):
                out["paths"] += 1
                out["notes"].extend(c.notes)
                base_h = c.hyps()
                hr = smt.solve(base_h, timeout_s=min(case.timeout, 8.0), families=("basic",), ack_uf=case.ack_uf)
                if hr.status == "unknown":
                    # retry without the definedness side conditions (a weaker, cheaper twin)
                    hr = smt.solve(list(c.assumptions) + list(c.path), timeout_s=min(case.timeout, 8.0), families=("basic",), ack_uf=case.ack_uf)
                    if hr.status == "sat":
                        hr.status = "sat-weak"
                if hr.status == "unsat":
                    out["unreachable_paths"] += 1
                    continue
                reach = hr.status
                out.setdefault("reach", []).append(reach)
                reach_model = hr.model if hr.status == "sat" else None
                if outcome[0] == "exc":
                    e = outcome[1]
                    rec = {"type": type(e).__name__, "msg": str(e)[:300], "expected": isinstance(e, case.expect_exc)}
                    frames = traceback.extract_tb(e.__traceback__)
                    in_repo = any("/pfhedge/" in f.filename for f in frames)
                    if not rec["expected"] and not in_repo:
                        # raised by the harness / engine itself, not by the code under test: a harness error, never a finding
                        out["errors"].append({"kind": "engine", "msg": "%s in harness code: %s" % (type(e).__name__, str(e)[:200]),
                                              "trace": "".join(traceback.format_exception(type(e), e, e.__traceback__))[-1500:]})
                        rec["expected"] = True
                    if not rec["expected"]:
                        # unexpected exception: finding candidate -> replay with a model of the path
                        rec["trace"] = "".join(traceback.format_exception(type(e), e, e.__traceback__))[-1500:]
                        if reach_model is not None:
                            vals = _model_json(reach_model)
                            c2, exc2 = run_concrete(case, vals)
                            rec["replay_exc"] = repr(exc2)
                            rec["reproduced"] = exc2 is not None and type(exc2).__name__ == type(e).__name__ and not c2.assume_failed
                            rec["model"] = vals
                        else:
                            rec["reproduced"] = False
                    out["exceptions"].append(rec)
                defs = [tm.eq(v, d) for v, d in c.defs.items()]
                checks = [g for g in c.goals if g.kind == "check"]
                controls = [g for g in c.goals if g.kind == "control"]

                def hyps_of(g):
                    return list(c.assumptions) + list(g.path) + ([] if case.check_side else list(g.side)) + defs

                pending = list(checks)
                if case.batch and len(checks) > 1:
                    # one query for the conjunction; falls back to individual queries unless unsat
                    h = hyps_of(checks[-1])
                    conj = tm.and_(*[g.term for g in checks])
                    r = _solve_goal(case, h, conj, timeout=min(case.timeout, 6.0))  # a shortcut only: fall back to one query per goal
                    if r.status == "unsat":
                        for g in checks:
                            out["goals"].append({"name": g.name, "kind": "check", "status": "discharged",
                                                 "time": r.seconds / len(checks), "size": tm.size(g.term),
                                                 "atoms": r.n_atoms, "batched": True, "path": out["paths"], "reach": reach})
                        pending = []
                for g in pending:
                    if g.term is tm.TRUE:
                        out["goals"].append({"name": g.name, "kind": "check", "status": "discharged", "time": 0.0,
                                             "size": 1, "atoms": 0, "trivial": True, "path": out["paths"]})
                        continue
                    h = hyps_of(g)
                    r = _solve_goal(case, h, g.term)
                    rec = {"name": g.name, "kind": "check", "time": r.seconds, "size": tm.size(g.term),
                           "atoms": r.n_atoms, "path": out["paths"], "reach": reach}
                    if r.status == "unsat":
                        rec["status"] = "discharged"
                    elif r.status == "unknown":
                        rec["status"] = "undecided"
                        rec["reason"] = r.reason
                        # No verdict within the budget.  A model of the *relaxed* encoding (every non-linear monomial and special function
                        # opaque; found in seconds) is still a candidate input: if it violates the obligation on the real code by a clear
                        # margin it is a genuine counterexample, wherever it came from; otherwise the obligation stays undecided.
                        rl = smt.solve(h + [tm.not_(g.term)], timeout_s=min(case.timeout, 10.0), linearize=True, want_model=True)
                        if rl.status == "sat":
                            rr = _handle_sat(case, h, g, rl, relaxed=True)
                            if rr["status"] == "violated":
                                rec.update(rr)
                                rec["found_by"] = "model of the relaxed (linearised) encoding after the full query timed out"
                    else:
                        rec.update(_handle_sat(case, h, g, r))
                    out["goals"].append(rec)
                for g in controls:
                    h = hyps_of(g)
                    r = _solve_goal(case, h, g.term)
                    rec = {"name": g.name, "kind": "control", "time": r.seconds, "size": tm.size(g.term),
                           "atoms": r.n_atoms, "path": out["paths"]}
                    if r.status == "sat":
                        rr = _handle_sat(case, h, g, r)
                        rec["status"] = "control_ok" if rr["status"] == "violated" else "control_not_replayed"
                        rec["replay"] = rr.get("replay")
                    elif r.status == "unsat":
                        rec["status"] = "control_blind"
                    else:
                        rec["status"] = "control_undecided"
                    out["goals"].append(rec)
    except EngineUnsupported as e:
        out["errors"].append({"kind": "unsupported", "msg": str(e), "trace": traceback.format_exc()[-1200:]})
    except ExplorationBound as e:
        out["errors"].append({"kind": "bound", "msg": str(e)})
    except Exception as e:  # noqa: BLE001
        out["errors"].append({"kind": "engine", "msg": repr(e), "trace": traceback.format_exc()[-2500:]})
    out["wall"] = time.time() - t0
    out["solver"] = dict(smt.STATS)
    out["cross"] = {k: (list(v) if isinstance(v, list) else v) for k, v in smt.CROSS.items()}
    out["handlers_used"] = sorted(st.USED)
    out["constants_recognised"] = sorted(tm.RECOGNISED_LOG)
    return out


def _handle_sat(case, hyps, g, r, relaxed=False):
    """Counterexample found: try a margin model first, then replay on the real code."""
    models = []
    # first choice: a counterexample on a coarse dyadic grid (robust against float rounding in the replay)
    try:
        if relaxed:
            raise RuntimeError("skip the extra full-encoding queries")
        fv = set()
        for h in hyps + [g.term]:
            fv |= tm.free_vars(h)
        inputs = [v for v in fv if v.sort == "R" and not v.val.startswith(("AT.", "NC.")) and "!" not in v.val]
        if 0 < len(inputs) <= 40 and r.n_atoms == 0:
            nice = [tm.eq(tm.floor(tm.scale(v, 64)), tm.scale(v, 64)) for v in inputs]
            r0 = smt.solve(hyps + [margin_negation(g.term, case.margin or 1e-3)] + nice, timeout_s=min(case.timeout, 10.0),
                           families=case.families, ack_uf=case.ack_uf)
            if r0.status == "sat":
                models.append(_model_json(r0.model))
    except Exception:  # noqa: BLE001
        pass
    if case.margin and not relaxed:
        r2 = smt.solve(hyps + [margin_negation(g.term, case.margin)], timeout_s=min(case.timeout, 20.0),
                       families=case.families, ack_uf=case.ack_uf, tactic=case.tactic)
        if r2.status == "sat":
            models.append(_model_json(r2.model))
    models.append(_model_json(r.model))
    n_exact = 0 if relaxed else len(models)
    # candidates near the solver's models that are exactly representable (any input that reproduces on
    # the real code is a genuine witness, wherever it came from)
    for base in list(models):
        for grid in (256.0, 16.0):
            models.append({k: (round(v * grid) / grid if isinstance(v, float) else v) for k, v in base.items()})
    # ... and jittered copies (the solver likes degenerate points -- zeros, ties, kinks of |.| and relu -- where
    # one-sided derivatives or tie-breaking of the real code may differ from the generic branch)
    import zlib

    for base in list(models[:2]):
        for salt in (1, 2, 3):
            models.append({k: (v + 0.05 * ((zlib.crc32(("%s/%d" % (k, salt)).encode()) % 2001) / 1000.0 - 1.0) if isinstance(v, float) else v)
                           for k, v in base.items()})
    def robust(rp):
        """a heuristic candidate (not a solver model) counts only if it violates the obligation by a clear margin: float
        degeneracies of the replay oracle (a finite difference that underflows to exactly 0, a tie produced by rounding) must
        not be reported as counterexamples"""
        mg = rp.get("margin")
        return rp["reproduced"] and (mg is None or mg > 1e-7)

    last = None
    for i, vals in enumerate(models):
        rp = replay_goal(case, vals, g.name)
        last = (vals, rp)
        if rp["reproduced"] and (i < n_exact or robust(rp)):
            return {"status": "violated", "model": vals, "replay": rp}
        if i < n_exact and rp.get("raised_in_repo") and not relaxed:
            rp["reproduced"] = True
            rp["detail"] = ("the real code raises %s on the solver's counterexample (symbolic execution returns a value that violates the "
                            "obligation there)" % rp["exc"])
            return {"status": "violated", "model": vals, "replay": rp}
    # Last resort before calling the solver's counterexample spurious (its values for the abstracted special functions
    # need not be realisable): look for a real witness near the solver's models by random perturbation, keeping signs.
    # Whatever reproduces on the real code is a genuine violation of the same obligation.
    import random

    rng = random.Random(12345)
    t_end = time.time() + 20.0
    tries = 0
    base_models = models[:3]
    while time.time() < t_end and tries < 400:
        tries += 1
        base = base_models[tries % len(base_models)]
        cand = {}
        for k, v in base.items():
            if isinstance(v, float):
                mag = abs(v) if abs(v) > 1e-6 else 0.5
                x = mag * math.exp(rng.gauss(0.0, 0.6))
                sign = -1.0 if v < 0 else (1.0 if v > 0 else rng.choice((-1.0, 1.0)))
                cand[k] = sign * x
            else:
                cand[k] = v
        rp = replay_goal(case, cand, g.name)
        if robust(rp):
            rp["found_by"] = "perturbation of the solver's model (%d tries)" % tries
            return {"status": "violated", "model": cand, "replay": rp}
    return {"status": "spurious", "model": last[0], "replay": last[1]}


# ---------------------------------------------------------------------------------------------
# property-level driver
# ---------------------------------------------------------------------------------------------


def _worker(args):
    modname, case_name = args
    import importlib

    mod = importlib.import_module(modname)
    for case in mod.cases():
        if case.name == case_name:
            try:
                return run_case(case)
            except BaseException as e:  # noqa: BLE001
                return {"case": case_name, "paths": 0, "goals": [], "errors": [{"kind": "engine", "msg": repr(e),
                        "trace": traceback.format_exc()[-2500:]}], "exceptions": [], "wall": 0.0,
                        "solver": {"queries": 0, "time": 0.0}, "unreachable_paths": 0, "encodes": [], "bounds": "",
                        "notes": [], "handlers_used": [], "constants_recognised": []}
    raise KeyError(case_name)


def load_known():
    p = os.path.join(ROOT, "known_findings.json")
    if not os.path.exists(p):
        return []
    return json.load(open(p)).get("findings", [])


def known_match(known, prop, case_name, goal_name):
    for k in known:
        if k.get("status", "open") != "open":
            continue
        if k["property"] == prop and fnmatch.fnmatch(case_name, k["case"]) and k["goal"] in goal_name:
            return k
    return None


def run_property(prop, modname, tier, meta, jobs=None, only=None):
    import importlib

    t0 = time.time()
    seed = int(os.environ.get("VERIF_SEED", "0") or 0)
    if tier == "thorough":
        os.environ["VERIF_CROSS"] = "1"  # every decided obligation is also put to cvc5 (same SMT-LIB2 text)
    # validate the translator first: handler table vs real torch (smoke set for quick, full set for thorough)
    import subprocess

    cp = subprocess.run([sys.executable, "-W", "ignore", "-m", "conformance.run"] + (["--smoke"] if tier == "quick" else []),
                        cwd=ROOT, capture_output=True, text=True)
    try:
        _ev = os.environ.get("VERIF_EVIDENCE_DIR")
        meta["conformance"] = json.load(open(os.path.join(_ev, "conformance_result.json") if _ev else os.path.join(ROOT, "conformance", "result.json")))
    except Exception:  # noqa: BLE001
        meta["conformance"] = {"cases": 0, "failures": ["conformance run produced no result: " + cp.stderr[-300:]]}
    mod = importlib.import_module(modname)
    cases = [c for c in mod.cases() if (tier == "thorough" or c.tier == "quick")]
    if only:
        cases = [c for c in cases if fnmatch.fnmatch(c.name, only)]
    jobs = jobs or min(16, max(1, len(cases)))
    results = []
    if jobs == 1 or len(cases) == 1:
        for c in cases:
            results.append(run_case(c))
    else:
        mpctx = mp.get_context("fork")
        with mpctx.Pool(processes=jobs, maxtasksperchild=1) as pool:
            asyncs = [(c, pool.apply_async(_worker, ((modname, c.name),))) for c in cases]
            for c, a in asyncs:
                try:
                    results.append(a.get(timeout=c.wall + 60))
                except mp.TimeoutError:
                    results.append({"case": c.name, "paths": 0, "goals": [], "errors": [{"kind": "wall", "msg": "case exceeded %ds" % c.wall}],
                                    "exceptions": [], "wall": c.wall, "solver": {"queries": 0, "time": 0.0}, "unreachable_paths": 0,
                                    "encodes": list(c.encodes), "bounds": c.bounds, "notes": [], "handlers_used": [], "constants_recognised": []})
            pool.terminate()
    return summarize(prop, tier, seed, results, meta, time.time() - t0)


def summarize(prop, tier, seed, results, meta, wall):
    known = load_known()
    violations, known_hits, harness_errors, undecided = [], [], [], []
    obligations = discharged = controls = controls_ok = 0
    replays = 0
    samples = []
    solver_time = 0.0
    queries = 0
    paths = 0
    distinct = set()
    handlers = set()
    consts = set()
    encodes = set()
    bounds = []
    cross = {"asked": 0, "agree": 0, "cvc5_unknown": 0, "disagree": []}
    for r in results:
        for k, v in (r.get("cross") or {}).items():
            if isinstance(v, list):
                cross[k] += ["%s: %s" % (r["case"], x) for x in v]
            else:
                cross[k] += v
        paths += r["paths"]
        solver_time += r["solver"].get("time", 0.0)
        queries += r["solver"].get("queries", 0)
        handlers.update(r.get("handlers_used", []))
        consts.update(r.get("constants_recognised", []))
        encodes.update(r.get("encodes", []))
        if r.get("bounds"):
            bounds.append("%s: %s" % (r["case"], r["bounds"]))
        for e in r["errors"]:
            if e["kind"] == "wall" or (e["kind"] == "bound" and "wall-clock" in e["msg"]):
                # the case ran out of its wall-clock budget: a timeout, reported like one (what it had decided until then is kept)
                undecided.append("%s (%s)" % (r["case"], e["msg"]))
                continue
            harness_errors.append("%s: %s: %s" % (r["case"], e["kind"], e["msg"]))
        if r["paths"] and r["unreachable_paths"] == r["paths"]:
            harness_errors.append("%s: every path has unsatisfiable hypotheses (vacuous)" % r["case"])
        for x in r["exceptions"]:
            if x["expected"]:
                continue
            gname = "exception:" + x["type"]
            obligations += 1
            if x.get("reproduced"):
                k = known_match(known, prop, r["case"], gname)
                rec = {"case": r["case"], "goal": gname, "model": x.get("model"), "detail": x["msg"]}
                replays += 1
                (known_hits if k else violations).append((rec, k))
            else:
                harness_errors.append("%s: unexpected %s not reproduced on real code: %s\n%s" % (r["case"], x["type"], x["msg"], x.get("trace", "")))
        for g in r["goals"]:
            if g["kind"] == "check":
                obligations += 1
                st_ = g["status"]
                if st_ == "discharged":
                    discharged += 1
                    if not g.get("trivial") and g.get("reach") == "sat":
                        distinct.add((r["case"], g["name"]))
                    if len(samples) < 6 and not g.get("trivial"):
                        samples.append({"case": r["case"], "obligation": g["name"], "verdict": "unsat",
                                        "term_nodes": g["size"], "special_function_atoms": g["atoms"],
                                        "solver_s": round(g["time"], 4)})
                elif st_ == "undecided":
                    undecided.append("%s/%s (%s)" % (r["case"], g["name"], g.get("reason", "")))
                elif st_ == "violated":
                    replays += 1
                    k = known_match(known, prop, r["case"], g["name"])
                    rec = {"case": r["case"], "goal": g["name"], "model": g.get("model"), "detail": g.get("replay", {}).get("detail")}
                    (known_hits if k else violations).append((rec, k))
                elif st_ == "spurious":
                    # the solver's model of the abstraction (special functions are uninterpreted symbols constrained by finitely many
                    # axiom instances) is not a behaviour of the real code: the obligation is neither proved nor refuted
                    undecided.append("%s/%s (counterexample of the abstraction did not reproduce on the real code: %s)" % (
                        r["case"], g["name"], json.dumps(g.get("replay"))[:200]))
            else:
                controls += 1
                if g["status"] == "control_ok":
                    controls_ok += 1
                    replays += 1
                elif g["status"] == "control_blind":
                    # the deliberately wrong claim was *proved*: the hypotheses are vacuous or the model is wrong -- nothing can be believed
                    harness_errors.append("%s/%s: negative control came back %s" % (r["case"], g["name"], g["status"]))
                else:
                    # refuted by the solver but not confirmed on the real code within the budget (or no verdict): the hypotheses are
                    # satisfiable, so the sibling obligations are not vacuous; reported, not fatal
                    undecided.append("%s/%s (negative control: %s)" % (r["case"], g["name"], g["status"]))
    # output
    lines = []
    os.makedirs(os.path.join(ROOT, "replays", prop), exist_ok=True)
    for rec, _ in violations:
        h = hashlib.sha1(json.dumps(rec, sort_keys=True, default=str).encode()).hexdigest()[:10]
        path = os.path.join(ROOT, "replays", prop, "%s-%s.json" % (rec["goal"].replace("/", "_").replace(":", "_")[:60], h))
        with open(path, "w") as f:
            json.dump({"property": prop, "module": meta["module"], **rec}, f, indent=1, default=str)
        lines.append("VIOLATION property=%s replay=%s" % (prop, path))
    seen_known = set()
    for rec, k in known_hits:
        key = (k["case"], k["goal"])
        if key in seen_known:
            continue
        seen_known.add(key)
        lines.append("KNOWN-FINDING: property=%s %s [%s/%s]" % (prop, k["what"], rec["case"], rec["goal"]))
    evidence = {
        "property_id": prop,
        "tier": tier,
        "seed": seed,
        "level": "model_checking",
        "coverage": {
            "obligations": obligations,
            "discharged": discharged,
            "undecided": undecided,
            "evaluations": queries,
            "distinct_nontrivial": len(distinct),
            "rule": "one obligation = one assertion of the harness on one explored path of the real code, negated and "
                    "given to z3 together with the harness assumptions, the path condition and the instantiated axioms; "
                    "it is counted as distinct and non-trivial when its hypotheses were shown satisfiable (reachability "
                    "twin violated) and the goal did not fold to `true` during term construction; `evaluations` counts "
                    "solver queries (feasibility of branches, reachability twins, obligations, controls, margin queries)",
            "samples": samples,
            "paths_explored": paths,
            "cases": [{"case": r["case"], "paths": r["paths"], "wall_s": round(r["wall"], 2),
                       "obligations": sum(1 for g in r["goals"] if g["kind"] == "check"),
                       "bounds": r.get("bounds", "")} for r in results],
            "functions_encoded": sorted(encodes),
            "bounds": bounds,
            "torch_handlers_exercised": sorted(handlers),
            "constants_recognised": sorted(consts),
            "negative_controls": {"expected_sat": controls, "observed_sat_and_replayed": controls_ok},
            "traces_validated_against_impl": replays,
            "known_findings_hit": [k["what"] for _, k in known_hits],
            "solver": "z3 %s (python API)" % smt.z3.get_version_string(),
            "cross_solver": dict(cross, solver="cvc5 python API (thorough tier only: the SMT-LIB2 text of every decided obligation)"),
            "solver_time_s": round(solver_time, 3),
            "stubs": meta.get("stubs", []),
            "axioms_used": meta.get("axioms", []),
            "harness_errors": harness_errors,
            "handler_conformance": {k: v for k, v in meta.get("conformance", {}).items() if k != "failures"},
            "handler_conformance_failures": meta.get("conformance", {}).get("failures", [])[:10],
        },
        "assumptions": meta.get("assumptions", []),
        "wall_s": round(wall, 3),
        "violations": len(violations),
    }
    # (VERIF_EVIDENCE_DIR: scratch output for the seed-regression tool, which runs the checks against patched worktrees in parallel;
    #  the registered commands never set it)
    evdir = os.environ.get("VERIF_EVIDENCE_DIR") or os.path.join(ROOT, "evidence")
    os.makedirs(evdir, exist_ok=True)
    with open(os.path.join(evdir, prop + ".json"), "w") as f:
        json.dump(evidence, f, indent=1, default=str)
    for l in lines:
        print(l)
    print("%s tier=%s obligations=%d discharged=%d undecided=%d controls=%d/%d paths=%d queries=%d solver=%.1fs wall=%.1fs" % (
        prop, tier, obligations, discharged, len(undecided), controls_ok, controls, paths, queries, solver_time, wall))
    for u in undecided:
        print("UNDECIDED", u)
    for e in harness_errors:
        print("HARNESS-ERROR", e)
    for d in cross["disagree"]:
        harness_errors.append("solver disagreement: " + d)
    if meta.get("conformance", {}).get("failures"):
        harness_errors.append("handler conformance failed: the model of torch disagrees with real torch; no verdict is reported")
        for e in meta["conformance"]["failures"][:5]:
            print("HARNESS-ERROR conformance:", e[:200])
        return EXIT_HARNESS
    if violations:
        return EXIT_VIOLATION
    if harness_errors:
        return EXIT_HARNESS
    if obligations == 0:
        print("HARNESS-ERROR no obligations")
        return EXIT_HARNESS
    return EXIT_OK
