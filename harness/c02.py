"""C02 — hedges are non-anticipative and never trade at maturity."""
import torch

from harness.lib import Case
from harness import common as cm
from symtorch import api, facades
from symtorch.api import elem

META = {
    "stubs": ["simulate(): two instruments whose buffers share the symbols of columns 0..t and have independent symbols afterwards",
              "hedging model: uninterpreted row-wise function (congruence only) / real Linear / real BlackScholes / WhalleyWilmott / Naked"],
    "axioms": ["congruence of uninterpreted functions (z3 EUF)", "extended-real element model for the Black-Scholes based models "
               "(division by zero at maturity is inf/NaN as in IEEE-754, then masked by the code's own where())"],
    "assumptions": ["exact reals; N<=2, T<=6, H<=2", "user models that themselves mix time steps in the vectorised branch are outside the claim",
                    "Empty feature excluded (uninitialised memory)"],
}


def splice(base, alt, t):
    """columns 0..t of base followed by columns t+1.. of alt"""
    if t + 1 >= base.shape[1]:
        return base.clone()
    return torch.cat([base[:, : t + 1], alt[:, t + 1:]], dim=1)


def build(c, N, T, ul_kind, deriv_kind, H, tag, bufs):
    """instrument set with the given buffers"""
    from pfhedge.instruments import BrownianStock, HestonStock, LocalVolatilityStock

    dt, cost = bufs["dt"], 0.0
    if ul_kind == "brownian":
        ul = BrownianStock(sigma=bufs["sigma"], cost=cost, dt=dt)
        ul.register_buffer("spot", bufs["spot"])
    elif ul_kind == "heston":
        ul = HestonStock(cost=cost, dt=dt)
        ul.register_buffer("spot", bufs["spot"])
        ul.register_buffer("variance", bufs["variance"])
    else:
        ul = LocalVolatilityStock(sigma_fn=None, cost=cost, dt=dt)
        ul.register_buffer("spot", bufs["spot"])
        ul.register_buffer("volatility", bufs["volatility"])
    deriv = cm.make_derivative(c, deriv_kind, ul, strike=bufs["K"])
    hedge = None
    if H == 2:
        p2 = BrownianStock(sigma=bufs["sigma"], cost=cost, dt=dt)
        p2.register_buffer("spot", bufs["spot2"])
        hedge = [ul, p2]
    return deriv, hedge


def nonanticipative_case(N, T, ul_kind, deriv_kind, inputs, model_kind, H=1, xmode=False, controls=False):
    def fn(c):
        from pfhedge.nn import BlackScholes, Naked, WhalleyWilmott

        base = {"dt": api.real(c, "dt", pos=True), "sigma": api.real(c, "sigma", pos=True), "K": api.real(c, "K", pos=True)}
        names = ["spot", "spot2", "variance", "volatility"]
        A, B = {}, {}
        for nm in names:
            pos = nm in ("spot", "spot2")
            nonneg = nm == "volatility"
            A[nm] = api.tensor(c, "A." + nm, (N, T), pos=pos, nonneg=nonneg)
            B[nm] = api.tensor(c, "B." + nm, (N, T), pos=pos, nonneg=nonneg)
        feats = [cm.make_feature(c, f) if isinstance(f, str) and f in ("barrier_up", "barrier_down", "underlier_log_spot", "module_output", "module_output_max") else f
                 for f in inputs]
        stepwise = "prev_hedge" in inputs

        shared = {}

        def run(bufs):
            b = dict(base)
            b.update(bufs)
            deriv, hedge = build(c, N, T, ul_kind, deriv_kind, H, "x", b)
            if "hedger" in shared and model_kind in ("uf", "linear", "naked"):
                # the same hedger object is used again (a stale state from the previous evaluation -- which
                # saw different future columns -- must not leak into this one)
                return shared["hedger"].compute_hedge(deriv, hedge)
            with facades.real_torch():
                if model_kind == "uf":
                    model = cm.UFModel(H)
                elif model_kind == "linear":
                    torch.manual_seed(3)
                    model = torch.nn.Linear(len(feats) + (H - 1 if stepwise else 0), H).double()
                elif model_kind == "bs":
                    model = BlackScholes(deriv)
                elif model_kind == "ww":
                    deriv.ul().cost = api.real(c, "cost", nonneg=True)
                    model = WhalleyWilmott(deriv, a=api.real(c, "a", pos=True))
                elif model_kind == "naked":
                    model = Naked(H)
            ins = model.inputs() if model_kind in ("bs", "ww") else feats
            hedger = cm.make_hedger(c, ins, H, model=model)
            shared["hedger"] = hedger
            return hedger.compute_hedge(deriv, hedge)

        full = run(A)
        c.check("hedge shape", tuple(full.shape) == (N, H, T))
        for n in range(N):
            for h in range(H):
                c.check("no trade at maturity [%d,%d]" % (n, h), api.same(elem(full, n, h, T - 1), elem(full, n, h, T - 2)))
        for t in range(T - 1):
            pert = run({nm: splice(A[nm], B[nm], t) for nm in names})
            for n in range(N):
                for h in range(H):
                    for i in range(t + 1):
                        c.check("hedge[%d,%d,%d] independent of columns > %d" % (n, h, i, t),
                                api.same(elem(full, n, h, i), elem(pert, n, h, i)))
        if controls:
            # the position over step t does depend on column t (otherwise the test would be blind)
            t = 1
            pert = run({nm: splice(A[nm], B[nm], t - 1) for nm in names})
            c.control("control:hedge[0,0,%d] independent of column %d" % (t, t), api.same(elem(full, 0, 0, t), elem(pert, 0, 0, t)))

    return fn


STATE_INDEP = ["moneyness", "log_moneyness", "max_moneyness", "max_log_moneyness", "time_to_maturity", "volatility", "variance",
               "underlier_spot", "underlier_log_spot", "barrier_up", "barrier_down", "zeros", "module_output"]


def cases():
    cs = []
    enc = ("Hedger.compute_hedge (both branches)", "FeatureList.of/get", "all registered features", "OptionMixin.moneyness/log_moneyness/"
           "max_moneyness/time_to_maturity", "BrownianStock.volatility/variance", "HestonStock.volatility", "BlackScholes(derivative).forward",
           "WhalleyWilmott.forward", "Naked.forward", "torch.nn.Linear", "save_prev_output")
    # one feature at a time, uninterpreted model, vectorised branch
    for f in STATE_INDEP:
        ctl = f not in ("time_to_maturity", "zeros", "volatility", "variance")
        n_ = 2 if f == "module_output" else 1  # (a module feature may mix rows: two paths)
        cs.append(Case("feature/%s" % f, nonanticipative_case(n_, 4, "heston", "european", [f], "uf", controls=ctl), encodes=enc,
                       bounds="N=%d T=4 heston-like buffers, perturb every suffix" % n_))
    # full feature lists, both branches
    full = ["log_moneyness", "max_log_moneyness", "time_to_maturity", "volatility", "barrier_up"]
    cs.append(Case("list/vectorised/uf/H2", nonanticipative_case(2, 4, "heston", "lookback", full, "uf", H=2, controls=True), encodes=enc,
                   bounds="N=2 T=4 H=2"))
    cs.append(Case("list/stepwise/uf/H2", nonanticipative_case(2, 4, "heston", "lookback", full + ["prev_hedge"], "uf", H=2, controls=True),
                   encodes=enc, bounds="N=2 T=4 H=2"))
    cs.append(Case("list/vectorised/linear", nonanticipative_case(1, 4, "localvol", "european", full, "linear", controls=True), encodes=enc,
                   bounds="N=1 T=4"))
    cs.append(Case("list/stepwise/linear", nonanticipative_case(1, 4, "brownian", "european", full + ["prev_hedge"], "linear", controls=True),
                   encodes=enc, bounds="N=1 T=4"))
    cs.append(Case("list/stepwise/uf/module-over-running-max", nonanticipative_case(2, 4, "brownian", "lookback", ["module_output_max", "prev_hedge"], "uf",
                                                                      controls=True), encodes=enc,
                   bounds="N=2 T=4; ModuleOutput over max_log_moneyness/max_moneyness, same hedger re-evaluated on every perturbed future"))
    cs.append(Case("list/vectorised/uf/module-over-running-max", nonanticipative_case(2, 4, "brownian", "lookback", ["module_output_max"], "uf",
                                                                        controls=True), encodes=enc, bounds="N=2 T=4"))
    cs.append(Case("list/vectorised/uf/T2", nonanticipative_case(2, 2, "brownian", "european", ["log_moneyness", "time_to_maturity", "volatility"], "uf"), encodes=enc,
                   bounds="N=2 T=2 (maturity == dt: a single hedging step, the position at the final index repeats it)"))
    cs.append(Case("list/stepwise/uf/T2", nonanticipative_case(2, 2, "brownian", "european", ["log_moneyness", "time_to_maturity", "prev_hedge"], "uf"), encodes=enc,
                   bounds="N=2 T=2"))
    cs.append(Case("naked", nonanticipative_case(1, 3, "brownian", "european", ["empty"], "naked"), encodes=enc, bounds="N=1 T=3"))
    for dk in ("european", "lookback", "european_binary", "american_binary"):
        xm = dk in ("european", "european_binary")  # analytic deltas: extended reals; autogreek deltas: exact reals with
        # undefined constant operations (x/0 at maturity) modelled as arbitrary values
        cs.append(Case("bs/%s" % dk, nonanticipative_case(1, 3, "brownian", dk, [], "bs", xmode=xm), xmode=xm, encodes=enc,
                       bounds="N=1 T=3, %s" % ("extended reals" if xm else "exact reals, x/0 arbitrary"), timeout=60,
                       tier="quick" if dk in ("european", "lookback") else "thorough"))
    cs.append(Case("ww/european", nonanticipative_case(1, 3, "brownian", "european", ["prev_hedge"], "ww", xmode=True), xmode=True,
                   encodes=enc, bounds="N=1 T=3, extended reals", timeout=60))
    # thorough: longer paths, every feature x derivative x buffer kind
    for f in STATE_INDEP:
        for ul_kind, dk in (("brownian", "lookback"), ("localvol", "american_binary"), ("heston", "european_binary")):
            cs.append(Case("feature/%s/%s/%s/T6" % (f, ul_kind, dk), nonanticipative_case(2, 6, ul_kind, dk, [f], "uf"), tier="thorough",
                           encodes=enc, bounds="N=2 T=6", timeout=120))
    cs.append(Case("list/stepwise/uf/H2/T6", nonanticipative_case(2, 6, "heston", "lookback", full + ["prev_hedge"], "uf", H=2),
                   tier="thorough", encodes=enc, bounds="N=2 T=6 H=2", timeout=300))
    cs.append(Case("list/vectorised/uf/H2/T6", nonanticipative_case(2, 6, "heston", "lookback", full, "uf", H=2),
                   tier="thorough", encodes=enc, bounds="N=2 T=6 H=2", timeout=300))
    cs.append(Case("ww/european/T4", nonanticipative_case(1, 4, "brownian", "european", ["prev_hedge"], "ww", xmode=True), xmode=True,
                   tier="thorough", encodes=enc, bounds="N=1 T=4, extended reals", timeout=300))
    return cs
