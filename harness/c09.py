"""C09 — Black-Scholes prices respect no-arbitrage structure."""
import numpy as np
import torch

from harness.lib import Case
from harness.c08 import dfun
from symtorch import api, ctx as cx, facades, terms as tm
from symtorch import tensor as st

META = {
    "stubs": [],
    "axioms": ["exp: positivity, add-law, congruence, monotone; Phi: 0<Phi<1, symmetry, monotone, u*Phi(u)+phi(u)>0; sqrt; Phi' rule",
               "mean-value theorem (trusted lemma): a sign-definite partial derivative on the open domain gives monotonicity / convexity between any pair of points"],
    "assumptions": ["exact reals on the open domain t>0, v>0, K>0, running max >= spot",
                    "NOT decided (they need analytic facts about Phi beyond the axiom list and are not asked): European call >= intrinsic value, "
                    "American binary <= 1, lookback >= its locked-in payoff and lookback >= European on max >= strike"],
}


def structure_case():
    from pfhedge.nn import functional as F

    def fn(c):
        K = api.real(c, "K", pos=True)
        s = api.tensor(c, "s", (1,))
        t = api.tensor(c, "t", (1,), pos=True)
        v = api.tensor(c, "v", (1,), pos=True)
        e = lambda x: api.elem(x, 0)  # noqa: E731
        S = K * api.exp(e(s))
        call, put = F.bs_european_price(s, t, v, K, call=True), F.bs_european_price(s, t, v, K, call=False)
        c.check("call - put = S - K", api.eq(e(call) - e(put), S - K))
        bc, bp = F.bs_european_binary_price(s, t, v, call=True), F.bs_european_binary_price(s, t, v, call=False)
        c.check("binary call + binary put = 1", api.eq(e(bc) + e(bp), 1))
        c.check("binary call in [0,1]", api.all_(api.ge(e(bc), 0), api.le(e(bc), 1)))
        c.check("binary put in [0,1]", api.all_(api.ge(e(bp), 0), api.le(e(bp), 1)))
        c.check("European call <= spot", api.le(e(call), S))
        c.check("European put <= strike", api.le(e(put), K))
        m = api.tensor(c, "m", (1,))
        c.assume(api.ge(e(m), e(s)))
        ab = F.bs_american_binary_price(s, m, t, v)
        c.check("American binary >= 0", api.ge(e(ab), 0))
        c.check("American binary >= European binary", api.ge(e(ab), e(bc)))
        c.check("American binary == 1 once max >= strike", api.implies(api.ge(e(m), 0), api.eq(e(ab), 1)))
        lb = F.bs_lookback_price(s, m, t, v, K)
        c.check("lookback >= European call while max < strike", api.implies(api.lt(e(m), 0), api.ge(e(lb), e(call))))
        # continuity where the running maximum crosses the strike (value just below the strike, where the price does not
        # depend on the running maximum, against the value of the other branch at max = strike), symbolic strike
        s_neg = api.tensor(c, "sneg", (1,), hi=0)
        m_neg = api.tensor(c, "mneg", (1,), hi=0)
        c.assume(api.lt(e(s_neg), 0))
        c.assume(api.lt(e(m_neg), 0))
        c.assume(api.ge(e(m_neg), e(s_neg)))
        c.check("lookback continuous where the running max crosses the strike",
                api.eq(e(F.bs_lookback_price(s_neg, m_neg, t, v, K)), e(F.bs_lookback_price(s_neg, s_neg * 0, t, v, K)), tol=1e-6))
        c.check("American binary continuous where the running max crosses the strike (value 1 at spot = strike)",
                api.eq(e(F.bs_american_binary_price(s_neg * 0, m_neg, t, v)), 1, tol=1e-9))
        c.control("control:call - put = S", api.eq(e(call) - e(put), S))
        c.control("control:American binary <= European binary", api.le(e(ab), e(bc)))

    return fn


def sign_case(which):
    """sign of the partial derivatives of the executed price terms (monotone / convex by the mean-value theorem)"""
    from pfhedge.nn import functional as F

    def fn(c):
        K = api.real(c, "K", pos=True)
        s = api.tensor(c, "s", (1,))
        t = api.tensor(c, "t", (1,), pos=True)
        v = api.tensor(c, "v", (1,), pos=True)
        e = lambda x: api.elem(x, 0)  # noqa: E731
        if which.startswith("european"):
            price = lambda s_, t_, v_: F.bs_european_price(s_, t_, v_, K, call=True)  # noqa: E731
        else:
            price = lambda s_, t_, v_: F.bs_european_binary_price(s_, t_, v_, call=True)  # noqa: E731
        if c.mode == "sym":
            Ps = lambda s_: dfun(c, lambda y: price(y, t, v), s_)  # noqa: E731
            P_s, P_ss = Ps(s), dfun(c, Ps, s)
        else:
            with torch.no_grad():
                h = 1e-4
                p0, pp, pm = price(s, t, v), price(s + h, t, v), price(s - h, t, v)
                P_s, P_ss = (pp - pm) / (2 * h), (pp - 2 * p0 + pm) / h ** 2
        P_v = dfun(c, lambda y: price(s, t, y), v)
        P_t = dfun(c, lambda y: price(s, y, v), t)
        if which == "european":
            c.check("call increasing in spot (dP/dS > 0)", api.gt(e(P_s), 0))
            c.check("call convex in spot (S^2 P_SS = P_ss - P_s >= 0)", api.ge(e(P_ss) - e(P_s), 0, tol=1e-5))
            c.check("call non-decreasing in volatility", api.ge(e(P_v), 0))
            c.check("call non-decreasing in time to maturity", api.ge(e(P_t), 0))
            c.check("call delta < 1 (dP/dS = P_s / S)", api.lt(e(P_s), K * api.exp(e(s))))
            c.control("control:call decreasing in volatility", api.le(e(P_v), 0))
        else:
            c.check("binary call increasing in spot", api.gt(e(P_s), 0))
            c.control("control:binary call increasing in volatility everywhere", api.ge(e(P_v), 0))

    return fn


def cases():
    enc = ("bs_european_price", "bs_european_binary_price", "bs_american_binary_price", "bs_lookback_price", "d1", "d2", "ncdf", "npdf")
    fam = ("basic", "mono", "bounds")
    return [
        Case("structure", structure_case(), encodes=enc, families=fam, batch=False, timeout=120,
             bounds="all real log-moneyness, t>0, v>0, K>0, running max >= spot; tensors (1,)"),
        Case("signs/european", sign_case("european"), encodes=enc, families=fam, batch=False, timeout=120, bounds="whole open domain"),
        Case("signs/eubinary", sign_case("eubinary"), encodes=enc, families=fam, batch=False, timeout=120, bounds="whole open domain"),
    ]
