"""C12 — payoffs equal their contractual definitions and ordering."""
import torch

from harness.lib import Case
from harness import common as cm
from symtorch import api
from symtorch.api import elem

META = {
    "stubs": ["simulate(): fresh symbolic price buffers (spot > 0)"],
    "axioms": ["linear real arithmetic with ite (QF_LRA); log product law / monotonicity instances for the variance swap"],
    "assumptions": ["exact real arithmetic", "path lengths T<=6, N<=2 (payoffs are row-wise; no size-dependent branch)",
                    "forward start: 0 <= start <= (T-1)*dt so that the start index is on the grid"],
}


def row(S, n, T):
    return [elem(S, n, t) for t in range(T)]


def functional_case(N, T, controls=False):
    from pfhedge.nn import functional as F

    def fn(c):
        S = api.tensor(c, "S", (N, T), pos=True)
        K = api.real(c, "K")
        for call in (True, False):
            tag = "call" if call else "put"
            eu = F.european_payoff(S, call=call, strike=K)
            lb = F.lookback_payoff(S, call=call, strike=K)
            ab = F.american_binary_payoff(S, call=call, strike=K)
            eb = F.european_binary_payoff(S, call=call, strike=K)
            for out in (eu, lb, ab, eb):
                c.check("shape:" + tag, tuple(out.shape) == (N,))
            for n in range(N):
                r = row(S, n, T)
                ST = r[-1]
                mx, mn = api.maxv(*r), api.minv(*r)
                if call:
                    c.check("european:%s[%d]" % (tag, n), api.eq(elem(eu, n), api.maxv(ST - K, 0)))
                    c.check("lookback:%s[%d]" % (tag, n), api.eq(elem(lb, n), api.maxv(mx - K, 0)))
                    c.check("ambinary:%s[%d]" % (tag, n), api.eq(elem(ab, n), api.ite(api.ge(mx, K), 1, 0)))
                    c.check("eubinary:%s[%d]" % (tag, n), api.eq(elem(eb, n), api.ite(api.ge(ST, K), 1, 0)))
                else:
                    c.check("european:%s[%d]" % (tag, n), api.eq(elem(eu, n), api.maxv(K - ST, 0)))
                    c.check("lookback:%s[%d]" % (tag, n), api.eq(elem(lb, n), api.maxv(K - mn, 0)))
                    c.check("ambinary:%s[%d]" % (tag, n), api.eq(elem(ab, n), api.ite(api.le(mn, K), 1, 0)))
                    c.check("eubinary:%s[%d]" % (tag, n), api.eq(elem(eb, n), api.ite(api.le(ST, K), 1, 0)))
                # orderings
                c.check("order:lookback>=european>=0:%s[%d]" % (tag, n),
                        api.all_(api.ge(elem(lb, n), elem(eu, n)), api.ge(elem(eu, n), 0)))
                c.check("order:ambinary>=eubinary:%s[%d]" % (tag, n), api.ge(elem(ab, n), elem(eb, n)))
            if call:
                eu_c = eu
        eu_p = F.european_payoff(S, call=False, strike=K)
        for n in range(N):
            c.check("parity[%d]" % n, api.eq(elem(eu_c, n) - elem(eu_p, n), elem(S, n, T - 1) - K))
        if controls:
            c.control("control:lookback=european", api.eq(elem(F.lookback_payoff(S, True, K), 0), elem(eu_c, 0)))
            c.control("control:strict-binary", api.eq(elem(F.european_binary_payoff(S, True, K), 0),
                                                      api.ite(api.gt(elem(S, 0, T - 1), K), 1, 0)))
            if T >= 3:
                r = row(S, 0, T)
                c.control("control:max-without-first", api.eq(elem(F.lookback_payoff(S, True, K), 0),
                                                              api.maxv(api.maxv(*r[1:]) - K, 0)))

    return fn


def forward_start_case(N, T, sym_start):
    from pfhedge.nn import functional as F

    def fn(c):
        S = api.tensor(c, "S", (N, T), pos=True)
        K = api.real(c, "K")
        # functional form with every concrete index pair
        for si in range(T):
            out = F.european_forward_start_payoff(S, strike=K, start_index=si)
            for n in range(N):
                c.check("fwd_fn:start=%d[%d]" % (si, n),
                        api.eq(elem(out, n), api.maxv(elem(S, n, T - 1) / elem(S, n, si) - K, 0)))
        out = F.european_forward_start_payoff(S, strike=K, start_index=0, end_index=T - 2 if T > 1 else 0)
        c.check("fwd_fn:end_index", api.eq(elem(out, 0), api.maxv(elem(S, 0, max(T - 2, 0)) / elem(S, 0, 0) - K, 0)))
        if not sym_start:
            return
        # the derivative class: index floor(start/dt) for symbolic start and dt
        from pfhedge.instruments import EuropeanForwardStartOption

        dt = api.real(c, "dt", pos=True)
        start = api.real(c, "start", nonneg=True)
        c.assume(api.le(start, (T - 1) * dt))
        ul = cm.make_primary(c, "ul", N, T, dt=dt)
        d = EuropeanForwardStartOption(ul, strike=K, maturity=(T - 1) * dt, start=start)
        pay = d.payoff()  # forks over the feasible start indices
        c.check("fwd:shape", tuple(pay.shape) == (N,))
        Sb = ul.spot
        for n in range(N):
            want = None
            for k in range(T - 1, -1, -1):
                v = api.maxv(elem(Sb, n, T - 1) / elem(Sb, n, k) - K, 0)
                # index k  <=>  k*dt <= start < (k+1)*dt
                want = v if want is None else api.ite(api.lt(start, (k + 1) * dt), v, want)
            c.check("fwd:index=floor(start/dt)[%d]" % n, api.eq(elem(pay, n), want))
        k0 = int(d._start_index())
        if k0 < T - 1:  # (on the last index floor and ceil coincide)
            c.control("control:fwd-ceil", api.eq(elem(pay, 0), api.maxv(elem(Sb, 0, T - 1) / elem(Sb, 0, k0 + 1) - K, 0)))

    return fn


def varswap_case(N, T):
    from pfhedge.nn import functional as F

    def fn(c):
        dt = api.real(c, "dt", pos=True)
        K = api.real(c, "K")
        from pfhedge.instruments import VarianceSwap

        ul = cm.make_primary(c, "ul", N, T, dt=dt)
        S = ul.spot
        d = VarianceSwap(ul, strike=K)
        pay = d.payoff()
        rv = F.realized_variance(S, dt)
        c.check("varswap:shape", tuple(pay.shape) == (N,))
        for n in range(N):
            acc = 0
            for t in range(T - 1):
                lr = api.log(elem(S, n, t + 1) / elem(S, n, t))
                acc = acc + lr * lr
            want = acc / ((T - 1) * dt)
            c.check("realized_variance[%d]" % n, api.eq(elem(rv, n), want))
            c.check("varswap[%d]" % n, api.eq(elem(pay, n), want - K))
        acc = 0
        for t in range(T - 1):
            lr = api.log(elem(S, 0, t + 1) / elem(S, 0, t))
            acc = acc + lr * lr
        c.control("control:varswap-T-normalisation", api.eq(elem(rv, 0), acc / (T * dt)))

    return fn


def derivative_case(N, T, ul_kind="brownian"):
    """payoff() of the derivative classes == functional definitions on the underlier's buffer; clauses in order."""

    def fn(c):
        from pfhedge import instruments as I

        ul = cm.make_primary(c, "ul", N, T, kind=ul_kind)
        K = api.real(c, "K")
        S = ul.spot
        a, b, k2 = api.real(c, "a"), api.real(c, "b"), api.real(c, "k2")
        for cls, name in ((I.EuropeanOption, "european"), (I.LookbackOption, "lookback"),
                          (I.AmericanBinaryOption, "ambinary"), (I.EuropeanBinaryOption, "eubinary")):
            for call in (True, False):
                d = cls(ul, call=call, strike=K)
                p = d.payoff()
                c.check("%s:%s:shape" % (name, call), tuple(p.shape) == (N,))
                for n in range(N):
                    r = row(S, n, T)
                    ST, mx, mn = r[-1], api.maxv(*r), api.minv(*r)
                    want = {
                        ("european", True): api.maxv(ST - K, 0), ("european", False): api.maxv(K - ST, 0),
                        ("lookback", True): api.maxv(mx - K, 0), ("lookback", False): api.maxv(K - mn, 0),
                        ("ambinary", True): api.ite(api.ge(mx, K), 1, 0), ("ambinary", False): api.ite(api.le(mn, K), 1, 0),
                        ("eubinary", True): api.ite(api.ge(ST, K), 1, 0), ("eubinary", False): api.ite(api.le(ST, K), 1, 0),
                    }[(name, call)]
                    c.check("%s:%s[%d]" % (name, call, n), api.eq(elem(p, n), want))
                if name == "european" and call:
                    # clauses are applied in registration order: c2(c1(payoff))
                    d.add_clause("c1", lambda dd, x: x * a + b)
                    d.add_clause("c2", lambda dd, x: torch.nn.functional.relu(x - k2))
                    p2 = d.payoff()
                    for n in range(N):
                        base = api.maxv(elem(S, n, T - 1) - K, 0)
                        c.check("clauses:order[%d]" % n, api.eq(elem(p2, n), api.maxv(base * a + b - k2, 0)))
                    c.control("control:clauses-reversed", api.eq(elem(p2, 0), api.maxv(api.maxv(elem(S, 0, T - 1) - K, 0) - k2, 0) * a + b))
                    # re-registering an existing name replaces it in place
                    d.add_clause("c1", lambda dd, x: x + b)
                    p3 = d.payoff()
                    c.check("clauses:replace", api.eq(elem(p3, 0), api.maxv(api.maxv(elem(S, 0, T - 1) - K, 0) + b - k2, 0)))

    return fn


def cases():
    cs = []
    enc = ("european_payoff", "lookback_payoff", "american_binary_payoff", "european_binary_payoff",
           "european_forward_start_payoff", "realized_variance", "BaseDerivative.payoff/add_clause",
           "EuropeanOption/LookbackOption/AmericanBinaryOption/EuropeanBinaryOption/EuropeanForwardStartOption/VarianceSwap.payoff_fn",
           "EuropeanForwardStartOption._start_index")
    for T in (1, 2, 3, 4):
        cs.append(Case("payoff_fn/N2T%d" % T, functional_case(2, T, controls=(T == 3)), encodes=enc,
                       bounds="N=2 T=%d, all positive paths, all real strikes, call/put" % T))
    for T in (5, 6):
        cs.append(Case("payoff_fn/N2T%d" % T, functional_case(2, T), tier="thorough", encodes=enc, bounds="N=2 T=%d" % T, timeout=120))
    cs.append(Case("forward_start/T3", forward_start_case(1, 3, True), encodes=enc, bounds="N=1 T=3, symbolic start, dt", max_paths=32))
    cs.append(Case("forward_start/T5", forward_start_case(2, 5, True), tier="thorough", encodes=enc, bounds="N=2 T=5, symbolic start, dt", max_paths=64, timeout=120))
    for T in (2, 3):
        cs.append(Case("varswap/T%d" % T, varswap_case(1, T), encodes=enc, bounds="N=1 T=%d symbolic dt" % T))
    cs.append(Case("varswap/T5", varswap_case(2, 5), tier="thorough", encodes=enc, bounds="N=2 T=5", timeout=180))
    cs.append(Case("derivative/T3", derivative_case(2, 3), encodes=enc, bounds="N=2 T=3"))
    cs.append(Case("derivative/T1", derivative_case(1, 1), encodes=enc, bounds="N=1 T=1"))
    cs.append(Case("derivative/T5/heston", derivative_case(2, 5, "heston"), tier="thorough", encodes=enc, bounds="N=2 T=5", timeout=120))
    return cs
