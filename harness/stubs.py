"""Assume-guarantee stub for pfhedge._utils.bisect.bisect used when verifying its *callers*
(quadratic_cvar, the default HedgeLoss.cash).  The real bisect is verified against the same
contract separately (C19).  The stub (symbolic mode only; the concrete replay runs the real bisect)

* checks the call-site preconditions symbolically (lower < upper; the target lies between fn(lower)
  and fn(upper)) -- these are obligations of the caller;
* returns, per element, what the real loop returns:
    target inside the range : u with r <= u <= r + precision for a root r in the bracket, fn(r) = target
    target beyond fn(lower) : u in [lower, lower + precision]   (the loop collapses onto the lower end)
    target beyond fn(upper) : u = upper                          (upper is never updated)
"""
import numpy as np
import torch

from symtorch import api, ctx as cx, terms as tm
from symtorch import tensor as st


class NotElementwise(Exception):
    """fn does not map a tensor of the target's shape to a tensor of that shape"""


class BisectStub:
    def __init__(self, c, check_preconditions=True, name="bisect", degenerate=None):
        self.c = c
        self.calls = []
        self.check_preconditions = check_preconditions
        self.name = name
        self.degenerate = degenerate  # optional region of the inputs (a relation) in which a known finding lives

    def __call__(self, fn, target, lower, upper, precision=1e-6, max_iter=100000):
        c = self.c
        k = len(self.calls)
        lower, upper = torch.as_tensor(lower), torch.as_tensor(upper)
        fl, fu = fn(lower), fn(upper)
        tshape = tuple(target.shape) if isinstance(target, torch.Tensor) else ()
        full = tuple(torch.broadcast_shapes(tuple(lower.shape), tuple(upper.shape), tshape))
        if full:
            # contract of bisect: fn acts elementwise on tensors of the working shape (after the first iteration the
            # midpoints have the broadcast shape of lower, upper and target)
            pr = st.fresh_tensor(full, "probe", torch.float64)
            # (an arbitrary point of the bracket: fn is only ever evaluated inside it)
            for a, lo_, up_ in zip(pr._p.reshape(-1), np.broadcast_to(st.payload(lower), full).reshape(-1), np.broadcast_to(st.payload(upper), full).reshape(-1)):
                c.assume(tm.and_(tm.le(lo_, a), tm.le(a, up_)))
            probe_full = fn(pr)
            elementwise = tuple(probe_full.shape) == full
            c.check("%s call %d: fn maps a tensor of the target's shape elementwise" % (self.name, k), elementwise)
            if not elementwise:
                raise NotElementwise()
        # bisect is a deterministic function of (fn, target, lower, upper, precision): two calls whose arguments are
        # the same terms (fn compared through its values at the bracket ends and at a probe point) return the same value
        probe = fn((lower + upper) / 2)
        key = tuple(t.id for arr in (lower, upper, target, fl, fu, probe) for t in st.payload(arr).reshape(-1)) + (precision,)
        for prev in self.calls:
            if prev.get("key") == key:
                self.calls.append(dict(prev))
                return prev["out"]
        shape = tuple(torch.broadcast_shapes(tuple(fl.shape), tuple(target.shape) if isinstance(target, torch.Tensor) else ()))
        pl = np.broadcast_to(st.payload(lower), shape) if shape else st.payload(lower)
        pu = np.broadcast_to(st.payload(upper), shape) if shape else st.payload(upper)
        pt = np.broadcast_to(st.payload(target), shape)
        pfl, pfu = np.broadcast_to(st.payload(fl), shape), np.broadcast_to(st.payload(fu), shape)
        ok_bracket = tm.and_(*[tm.lt(a, b) for a, b in zip(pl.reshape(-1), pu.reshape(-1))])
        if self.check_preconditions:
            if self.degenerate is None:
                c.check("%s call %d: lower < upper" % (self.name, k), ok_bracket)
            else:
                c.check("%s call %d: lower < upper [non-constant sample]" % (self.name, k), api.implies(api.not_(self.degenerate), api.SymBool(ok_bracket)))
                c.check("%s call %d: lower < upper [constant sample]" % (self.name, k), api.implies(self.degenerate, api.SymBool(ok_bracket)))
        if not c.decide(ok_bracket):
            raise ValueError("condition lower < upper should be satisfied.")
        decreasing = c.decide(tm.and_(*[tm.gt(a, b) for a, b in zip(pfl.reshape(-1), pfu.reshape(-1))]))
        r = st.fresh_tensor(shape, "bisect_root", torch.float64)
        u = st.fresh_tensor(shape, "bisect_out", torch.float64)
        for a, lo_, up_ in zip(r._p.reshape(-1), pl.reshape(-1), pu.reshape(-1)):
            c.assume(tm.and_(tm.le(lo_, a), tm.le(a, up_)))  # (r is auxiliary: only used when the target is inside the range)
        fr = fn(r)
        pfr = np.broadcast_to(st.payload(fr), shape)
        prec = tm.const(precision)
        in_all = []
        for idx in np.ndindex(*shape) if shape else [()]:
            lo, up, tg, a, b = pl[idx], pu[idx], pt[idx], pfl[idx], pfu[idx]
            rr, uu, frr = r._p[idx], u._p[idx], pfr[idx]
            if decreasing:
                inside = tm.and_(tm.le(b, tg), tm.le(tg, a))
                beyond_lower = tm.gt(tg, a)
            else:
                inside = tm.and_(tm.le(a, tg), tm.le(tg, b))
                beyond_lower = tm.lt(tg, a)
            in_all.append(inside)
            c.assume(tm.implies(inside, tm.and_(tm.le(lo, rr), tm.le(rr, up), tm.eq(frr, tg), tm.le(rr, uu),
                                                tm.le(uu, tm.add(rr, prec)), tm.le(uu, up))))
            c.assume(tm.implies(tm.and_(tm.not_(inside), beyond_lower), tm.and_(tm.le(lo, uu), tm.le(uu, tm.add(lo, prec)))))
            c.assume(tm.implies(tm.and_(tm.not_(inside), tm.not_(beyond_lower)), tm.eq(uu, up)))
        if self.check_preconditions:
            c.check("%s call %d: target between fn(lower) and fn(upper)" % (self.name, k), tm.and_(*in_all))
        self.calls.append({"lower": lower, "upper": upper, "target": target, "precision": precision, "root": r, "out": u,
                           "decreasing": decreasing, "inside": api.SymBool(tm.and_(*in_all)), "key": key})
        return u


class BisectSpy:
    """concrete replay: evaluate the same call-site preconditions numerically, then run the real bisect"""

    def __init__(self, c, real, check_preconditions=True, name="bisect", degenerate=None):
        self.c, self.real, self.check_preconditions, self.name = c, real, check_preconditions, name
        self.calls = []
        self.degenerate = degenerate

    def __call__(self, fn, target, lower, upper, precision=1e-6, max_iter=100000):
        c = self.c
        k = len(self.calls)
        self.calls.append({"precision": precision, "inside": api.Rel(True)})
        lo, up = torch.as_tensor(lower), torch.as_tensor(upper)
        tshape = tuple(target.shape) if isinstance(target, torch.Tensor) else ()
        full = tuple(torch.broadcast_shapes(tuple(lo.shape), tuple(up.shape), tshape))
        if full:
            pf = fn(torch.full(full, float((lo + up).reshape(-1)[0]) / 2, dtype=torch.float64))
            elementwise = tuple(pf.shape) == full
            c.check("%s call %d: fn maps a tensor of the target's shape elementwise" % (self.name, k), api.Rel(elementwise, 1.0, "fn returns shape %s for an input of shape %s" % (tuple(pf.shape), full)))
            if not elementwise:
                return self.real(fn, target, lower, upper, precision=precision, max_iter=max_iter)
        if bool((lo < up).all()):
            fl, fu = fn(lo), fn(up)
            tol = 1e-12
            if bool((fl > fu).all()):
                inside = bool(((fu <= target + tol) & (target <= fl + tol)).all())
            else:
                inside = bool(((fl <= target + tol) & (target <= fu + tol)).all())
            self.calls[-1]["inside"] = api.Rel(inside, 1.0)
        if self.check_preconditions:
            okb = api.Rel(bool((lo < up).all()), 1.0, "lower >= upper")
            if self.degenerate is None:
                c.check("%s call %d: lower < upper" % (self.name, k), okb)
            else:
                c.check("%s call %d: lower < upper [non-constant sample]" % (self.name, k), api.implies(api.not_(self.degenerate), okb))
                c.check("%s call %d: lower < upper [constant sample]" % (self.name, k), api.implies(self.degenerate, okb))
            if bool((lo < up).all()):
                c.check("%s call %d: target between fn(lower) and fn(upper)" % (self.name, k),
                        api.Rel(inside, 1.0, "target %s outside [%s, %s]" % (target, fl, fu)))
        out = self.real(fn, target, lower, upper, precision=precision, max_iter=max_iter)
        self.calls[-1]["out"] = out
        return out


class patched_bisect:
    """context manager: install the stub in the caller modules (symbolic mode only)"""

    def __init__(self, c, **kw):
        self.c = c
        self.kw = kw

    def __enter__(self):
        import pfhedge.nn.functional as F
        import pfhedge.nn.modules.loss as L

        self.mods = (F, L)
        self.old = [m.bisect for m in self.mods]
        self.stub = BisectStub(self.c, **self.kw) if self.c.mode == "sym" else BisectSpy(self.c, self.old[0], **self.kw)
        for m in self.mods:
            m.bisect = self.stub
        return self.stub

    def __exit__(self, *a):
        for m, o in zip(self.mods, self.old):
            m.bisect = o
        return False
