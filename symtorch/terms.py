"""Hash-consed term DAG over exact reals and Booleans.

Real terms are kept in a light normal form:
  * ``add``  : const + sum_i coef_i * m_i   (coefs rational, m_i non-add terms)
  * ``mul``  : prod_i f_i ** e_i            (e_i non-zero integers, f_i non-mul, non-const)
  * atoms    : const, named constant, var, ite, app(fname, args)
Comparisons are normalised to ``lt0(d)``, ``le0(d)``, ``eq0(d)`` on a difference ``d``.
No distribution of sums over sums is done; rational scalars are distributed.
"""
from __future__ import annotations

import math
import sys
from fractions import Fraction
from typing import Dict, Iterable, Tuple

sys.setrecursionlimit(20000)

_TABLE: Dict[tuple, "T"] = {}
_NEXT_ID = [0]


class T:
    __slots__ = ("op", "args", "val", "sort", "id", "_fv", "__weakref__")

    def __init__(self, op, args, val, sort):
        self.op = op
        self.args = args
        self.val = val
        self.sort = sort
        self.id = _NEXT_ID[0]
        _NEXT_ID[0] += 1
        self._fv = None

    def __repr__(self):
        return show(self)

    def __hash__(self):
        return self.id

    def __eq__(self, other):
        return self is other

    # no arithmetic operators here on purpose: use the module-level constructors
    # (SymReal / SymTensor carry the operator overloading)


def _mk(op, args=(), val=None, sort="R") -> T:
    key = (op, val, tuple(a.id for a in args), sort)
    t = _TABLE.get(key)
    if t is None:
        t = T(op, tuple(args), val, sort)
        _TABLE[key] = t
    return t


def reset_table():
    """Forget all terms (used between independent cases to bound memory)."""
    _TABLE.clear()
    global ZERO, ONE, TRUE, FALSE
    ZERO = const(0)
    ONE = const(1)
    TRUE = _mk("true", sort="B")
    FALSE = _mk("false", sort="B")


# ---------------------------------------------------------------------------------------
# constants
# ---------------------------------------------------------------------------------------

NAMED = {
    # name: (float value, sign)   -- all are positive irrationals
    "PI": math.pi,
    "SQRT2": math.sqrt(2),
    "LOG_SQRT_2PI": math.log(math.sqrt(2 * math.pi)),
    "INV_SQRT_2PI": 1 / math.sqrt(2 * math.pi),
}

# floats coming from the source that stand for an irrational: float -> (coef, name, exponent)
_RECOGNISE = {
    math.pi: (Fraction(1), "PI", 1),
    2 * math.pi: (Fraction(2), "PI", 1),
    math.sqrt(2): (Fraction(1), "SQRT2", 1),
    1 / math.sqrt(2): (Fraction(1, 2), "SQRT2", 1),
    math.sqrt(2) / 2: (Fraction(1, 2), "SQRT2", 1),
    math.log(math.sqrt(2 * math.pi)): (Fraction(1), "LOG_SQRT_2PI", 1),
    1 / math.sqrt(2 * math.pi): (Fraction(1), "INV_SQRT_2PI", 1),
    math.sqrt(2 * math.pi): (Fraction(1), "INV_SQRT_2PI", -1),
    math.sqrt(0.5): (Fraction(1, 2), "SQRT2", 1),
    2 * math.sqrt(2): (Fraction(2), "SQRT2", 1),
    0.5 * math.log(2 * math.pi): (Fraction(1), "LOG_SQRT_2PI", 1),
    math.log(2 * math.pi) / 2: (Fraction(1), "LOG_SQRT_2PI", 1),
    math.pi / 2: (Fraction(1, 2), "PI", 1),
    1 / 3: None,  # handled as exact 1/3 below
}
RECOGNISED_LOG = set()
# floats that are math.log(k) for a small integer k (e.g. math.log(input.size(0)) in the entropic risk measure)
_LOG_INTS = {math.log(k): k for k in range(2, 65)}


def const(x) -> T:
    if isinstance(x, T):
        return x
    if isinstance(x, bool):
        return TRUE if x else FALSE
    if isinstance(x, float):
        if x != x or x in (math.inf, -math.inf):
            raise ValueError("non-finite constant in exact-real mode: %r" % x)
        if x == 1 / 3:
            RECOGNISED_LOG.add("1/3")
            return _mk("const", val=Fraction(1, 3))
        if x == 2 / 3:
            RECOGNISED_LOG.add("2/3")
            return _mk("const", val=Fraction(2, 3))
        k = _LOG_INTS.get(x)
        if k is not None:
            RECOGNISED_LOG.add("log(%d)" % k)
            return _mk("app", (_mk("const", val=Fraction(k)),), "log")
        r = _RECOGNISE.get(abs(x))
        if r is not None:
            coef, name, e = r
            RECOGNISED_LOG.add(name)
            base = named(name) if e == 1 else powi(named(name), e)
            return scale(base, coef if x > 0 else -coef)
        x = Fraction(x)
    elif not isinstance(x, Fraction):
        x = Fraction(x)
    return _mk("const", val=x)


def named(name) -> T:
    assert name in NAMED
    return _mk("named", val=name)


def var(name, sort="R") -> T:
    return _mk("var", val=name, sort=sort)


ZERO = const(0)
ONE = const(1)
TRUE = _mk("true", sort="B")
FALSE = _mk("false", sort="B")


def is_const(t: T) -> bool:
    return t.op == "const"


def cval(t: T) -> Fraction:
    return t.val


# ---------------------------------------------------------------------------------------
# linear combinations
# ---------------------------------------------------------------------------------------


def _lin(t: T):
    """Return (const, {term: coef}) view of a real term."""
    if t.op == "const":
        return t.val, {}
    if t.op == "add":
        c, coefs = t.val
        return c, dict(zip(t.args, coefs))
    return Fraction(0), {t: Fraction(1)}


def _from_lin(c: Fraction, d: dict) -> T:
    items = [(m, k) for m, k in d.items() if k != 0]
    if not items:
        return _mk("const", val=c)
    # k1*ite(b, p1, q1) + k2*ite(b, p2, q2) = ite(b, k1*p1 + k2*p2, k1*q1 + k2*q2): small summands that test the same condition merge
    ites = [(m, k) for m, k in items if m.op == "ite"]
    if len(ites) >= 2:
        by_cond = {}
        for m, k in ites:
            by_cond.setdefault(m.args[0].id, []).append((m, k))
        for group in by_cond.values():
            if len(group) >= 2 and all(size(m) <= 60 for m, _ in group):
                cond = group[0][0].args[0]
                merged = ite(cond, add(*[scale(m.args[1], k) for m, k in group]), add(*[scale(m.args[2], k) for m, k in group]))
                rest = {m: k for m, k in items if all(m is not g for g, _ in group)}
                return add(_from_lin(c, rest), merged)
    if c == 0 and len(items) == 1 and items[0][1] == 1:
        return items[0][0]
    items.sort(key=lambda mk: mk[0].id)
    return _mk("add", tuple(m for m, _ in items), (c, tuple(k for _, k in items)))


def add(*ts) -> T:
    c = Fraction(0)
    d: dict = {}
    for t in ts:
        t = const(t)
        c2, d2 = _lin(t)
        c += c2
        for m, k in d2.items():
            d[m] = d.get(m, 0) + k
    return _from_lin(c, d)


def scale(t: T, k) -> T:
    k = Fraction(k)
    if k == 1:
        return t
    c, d = _lin(t)
    return _from_lin(c * k, {m: v * k for m, v in d.items()})


def neg(t: T) -> T:
    return scale(const(t), -1)


def sub(a, b) -> T:
    return add(a, neg(const(b)))


# ---------------------------------------------------------------------------------------
# monomials
# ---------------------------------------------------------------------------------------


def _mono(t: T):
    """(coef, {factor: exponent}) view of a real term that is not a proper sum."""
    if t.op == "const":
        return t.val, {}
    if t.op == "mul":
        return Fraction(1), dict(zip(t.args, t.val))
    if t.op == "add":
        c, coefs = t.val
        if c == 0 and len(t.args) == 1:
            k, f = _mono(t.args[0])
            return k * coefs[0], f
    return Fraction(1), {t: 1}


def _from_mono(k: Fraction, f: dict) -> T:
    if k == 0:
        return ZERO
    # algebra of named constants and sqrt atoms
    out = {}
    for fac, e in f.items():
        if e == 0:
            continue
        if fac.op == "add":
            # canonical sign of a sum used as a factor: leading coefficient positive ((t - x)*a and -(x - t)*a coincide)
            c0, coefs = fac.val
            lead = coefs[0] if coefs else c0
            if lead < 0:
                fac = neg(fac)
                if e % 2:
                    k = -k
            # ... and primitive: the positive rational content goes into the coefficient ((1/2 - x/2)*a and (1 - x)*a/2 coincide)
            if fac.op == "add":
                cs = [q for q in (fac.val[0],) + tuple(fac.val[1]) if q != 0]
                g = Fraction(math.gcd(*[q.numerator for q in cs]), math.lcm(*[q.denominator for q in cs]))
                if g != 1:
                    fac = scale(fac, 1 / g)
                    k *= g ** e
        if fac.op == "named" and fac.val == "SQRT2":
            q, r = divmod(e, 2)
            k *= Fraction(2) ** q
            if r:
                out[fac] = r
            continue
        if fac.op == "app" and fac.val == "sqrt" and e % 2 == 0:
            # sqrt(u)**2 = u on the domain of definition (u >= 0 is a recorded side condition)
            k2, f2 = _mono(fac.args[0])
            h = e // 2
            if k2 != 1:
                k *= k2 ** h
            for g, e2 in f2.items():
                out[g] = out.get(g, 0) + e2 * h
            continue
        if fac.op == "app" and fac.val == "cbrt" and e % 3 == 0:
            k2, f2 = _mono(fac.args[0])
            h = e // 3
            if k2 != 1:
                k *= k2 ** h
            for g, e2 in f2.items():
                out[g] = out.get(g, 0) + e2 * h
            continue
        out[fac] = out.get(fac, 0) + e
    items = [(g, e) for g, e in out.items() if e != 0]
    # INV_SQRT_2PI^2 * PI = 1/2
    dd = dict(items)
    inv = _mk("named", val="INV_SQRT_2PI")
    pi = _mk("named", val="PI")
    while dd.get(inv, 0) >= 2 and dd.get(pi, 0) >= 1:
        dd[inv] -= 2
        dd[pi] -= 1
        k *= Fraction(1, 2)
    while dd.get(inv, 0) <= -2 and dd.get(pi, 0) <= -1:
        dd[inv] += 2
        dd[pi] += 1
        k *= 2
    # product of exponentials: exp(u)^a * exp(w)^b = exp(a*u + b*w) (one exponential atom per monomial; constant arguments stay
    # split off, as exp() itself splits them)
    exps = [(g, e) for g, e in dd.items() if e != 0 and g.op == "app" and g.val == "exp" and g.args[0].op != "const"]
    if len(exps) >= 2 or (len(exps) == 1 and exps[0][1] != 1):
        for g, _ in exps:
            del dd[g]
        merged = exp(add(*[scale(g.args[0], e) for g, e in exps]))
        k2, f2 = _mono(merged) if not (merged.op == "add" and not (merged.val[0] == 0 and len(merged.args) == 1)) else (Fraction(1), {merged: 1})
        k *= k2
        for g, e in f2.items():
            dd[g] = dd.get(g, 0) + e
    items = [(g, e) for g, e in dd.items() if e != 0]
    if not items:
        return _mk("const", val=k)
    items.sort(key=lambda ge: ge[0].id)
    if len(items) == 1 and items[0][1] == 1:
        m = items[0][0]
        if m.op == "add":
            return scale(m, k)  # a lone sum is not wrapped: keep linear combinations flat
    else:
        m = _mk("mul", tuple(g for g, _ in items), tuple(e for _, e in items))
    if k == 1:
        return m
    return _mk("add", (m,), (Fraction(0), (k,)))


def mul(*ts) -> T:
    ts = [const(t) for t in ts]
    # scalar * sum distributes; sum * sum stays a product of atoms
    k = Fraction(1)
    f: dict = {}
    sums = []
    for t in ts:
        if t.op == "add" and not (t.val[0] == 0 and len(t.args) == 1):
            sums.append(t)
            continue
        k2, f2 = _mono(t)
        k *= k2
        for g, e in f2.items():
            f[g] = f.get(g, 0) + e
    if k == 0:
        return ZERO
    if not sums:
        return _from_mono(k, f)
    if len(sums) == 1 and not f:
        return scale(sums[0], k)
    for s in sums:
        f[s] = f.get(s, 0) + 1
    return _from_mono(k, f)


def powi(t: T, n: int) -> T:
    t = const(t)
    if n == 0:
        return ONE
    if n == 1:
        return t
    if t.op == "const":
        return const(t.val ** n)
    k, f = _mono(t)
    if t.op == "add" and not (t.val[0] == 0 and len(t.args) == 1):
        return _from_mono(Fraction(1), {t: n})
    return _from_mono(k ** n, {g: e * n for g, e in f.items()})


def div(a, b) -> T:
    a, b = const(a), const(b)
    if b.op == "const":
        if b.val == 0:
            raise ZeroDivisionError("division by the constant zero in exact-real mode")
        return scale(a, 1 / b.val)
    return mul(a, powi(b, -1))


# ---------------------------------------------------------------------------------------
# Booleans and comparisons
# ---------------------------------------------------------------------------------------


def _cmp(op, d: T) -> T:
    if d.op == "const":
        v = d.val
        return const({"lt0": v < 0, "le0": v <= 0, "eq0": v == 0}[op])
    if op == "eq0":
        # sign-normalise: leading coefficient positive
        c, dd = _lin(d)
        first = min(dd.items(), key=lambda mk: mk[0].id)
        if first[1] < 0:
            d = neg(d)
    return _mk(op, (d,), sort="B")


def lt(a, b) -> T:
    return _cmp("lt0", sub(a, b))


def le(a, b) -> T:
    return _cmp("le0", sub(a, b))


def gt(a, b) -> T:
    return lt(b, a)


def ge(a, b) -> T:
    return le(b, a)


def eq(a, b) -> T:
    a, b = const(a), const(b)
    if a.sort == "B" or b.sort == "B":
        return iff(a, b)
    return _cmp("eq0", sub(a, b))


def ne(a, b) -> T:
    return not_(eq(a, b))


def not_(a: T) -> T:
    a = const(a)
    if a is TRUE:
        return FALSE
    if a is FALSE:
        return TRUE
    if a.op == "not":
        return a.args[0]
    if a.op == "lt0":
        return _cmp("le0", neg(a.args[0]))
    if a.op == "le0":
        return _cmp("lt0", neg(a.args[0]))
    return _mk("not", (a,), sort="B")


def and_(*ts) -> T:
    out = []
    seen = set()
    for t in ts:
        t = const(t)
        if t is FALSE:
            return FALSE
        if t is TRUE:
            continue
        sub_ = t.args if t.op == "and" else (t,)
        for s in sub_:
            if s.id not in seen:
                seen.add(s.id)
                out.append(s)
    for s in out:
        if not_(s).id in seen:
            return FALSE
    if not out:
        return TRUE
    if len(out) == 1:
        return out[0]
    out.sort(key=lambda s: s.id)
    return _mk("and", tuple(out), sort="B")


def or_(*ts) -> T:
    return not_(and_(*[not_(const(t)) for t in ts]))


def implies(a, b) -> T:
    return or_(not_(a), b)


def iff(a, b) -> T:
    a, b = const(a), const(b)
    if a is b:
        return TRUE
    if a is TRUE:
        return b
    if b is TRUE:
        return a
    if a is FALSE:
        return not_(b)
    if b is FALSE:
        return not_(a)
    return and_(or_(not_(a), b), or_(a, not_(b)))


def ite(c, a, b) -> T:
    c, a, b = const(c), const(a), const(b)
    if c is TRUE:
        return a
    if c is FALSE:
        return b
    if a is b:
        return a
    if a.sort == "B":
        return or_(and_(c, a), and_(not_(c), b))
    # ite(c, P*a', P*b') = P * ite(c, a', b') for the common monomial part P of two monomial branches
    pa = not (a.op == "add" and not (a.val[0] == 0 and len(a.args) == 1)) and a.op != "const"
    pb = not (b.op == "add" and not (b.val[0] == 0 and len(b.args) == 1)) and b.op != "const"
    if pa and pb:
        ka, fa = _mono(a)
        kb, fb = _mono(b)
        common = {g: min(e, fb[g]) for g, e in fa.items() if g in fb and e > 0 and fb[g] > 0}
        k = ka if ka == kb else Fraction(1)
        if common or k != 1:
            ra = _from_mono(ka / k, {g: e - common.get(g, 0) for g, e in fa.items()})
            rb = _from_mono(kb / k, {g: e - common.get(g, 0) for g, e in fb.items()})
            return mul(_from_mono(k, common), _mk("ite", (c, ra, rb), sort="R") if ra is not rb else ra)
    return _mk("ite", (c, a, b), sort="R")


def abs_(a) -> T:
    a = const(a)
    if a.op == "const":
        return const(abs(a.val))
    return ite(ge(a, ZERO), a, neg(a))


def max_(a, b) -> T:
    a, b = const(a), const(b)
    if a is b:
        return a
    return ite(ge(a, b), a, b)


def min_(a, b) -> T:
    a, b = const(a), const(b)
    if a is b:
        return a
    return ite(le(a, b), a, b)


# ---------------------------------------------------------------------------------------
# special functions (uninterpreted for the solver; see axioms.py)
# ---------------------------------------------------------------------------------------

SPECIAL = ("exp", "log", "sqrt", "cbrt", "Phi", "cos", "sin", "pow", "floor")


def app(fname, *args, val_extra=None) -> T:
    args = tuple(const(a) for a in args)
    v = fname if val_extra is None else (fname, val_extra)
    return _mk("app", args, v)


def fname_of(t: T):
    return t.val if isinstance(t.val, str) else t.val[0]


def _lift_ite(fn, u: T):
    """fn(u) with the if-then-else atoms of u (u itself, or atoms of the linear combination / monomial u) lifted outside, when they
    all test the same condition:  fn(u[ite(c, a1, b1), ite(c, a2, b2)]) = ite(c, fn(u[a1, a2]), fn(u[b1, b2])).
    Returns None when u has no such atoms or atoms with different conditions (no blow-up), or when u is large."""
    if u.op not in ("ite", "add", "mul") or size(u) > 60:
        return None  # only small arguments (a running maximum over a few prices, a clamp, a hand-written log-sum-exp)
    if u.op == "ite":
        c, a, b = u.args
        return ite(c, fn(a), fn(b))
    cands = []
    for g in u.args:
        if g.op == "ite":
            cands.append(g)
        elif g.op == "mul" and u.op == "add":
            cands.extend(h for h in g.args if h.op == "ite")
    if not cands or any(g.args[0] is not cands[0].args[0] for g in cands):
        return None
    c = cands[0].args[0]
    try:
        return ite(c, fn(subst(u, {g: g.args[1] for g in cands})), fn(subst(u, {g: g.args[2] for g in cands})))
    except (ZeroDivisionError, ValueError):
        return None  # a branch that is never taken need not be defined (e.g. 1/0 behind its own guard): leave the term as it is


def exp(u) -> T:
    u = const(u)
    r = _lift_ite(exp, u)
    if r is not None:
        return r
    if u.op == "const":
        if u.val == 0:
            return ONE
        return _mk("app", (u,), "exp")
    if u.op == "app" and u.val == "log":
        return u.args[0]
    c, d = _lin(u)
    factors = []
    rest = {}
    for m, k in d.items():
        if m.op == "named" and m.val == "LOG_SQRT_2PI" and k.denominator == 1:
            # exp(k*log(sqrt(2pi))) = INV_SQRT_2PI ** (-k)
            factors.append(powi(named("INV_SQRT_2PI"), -int(k)))
        elif m.op == "app" and m.val == "log" and k.denominator == 1:
            factors.append(powi(m.args[0], int(k)))
        elif m.op == "app" and m.val == "log" and k.denominator in (2, 3):
            # exp(k*log(w)) = w ** k on the domain of log (w > 0): the same term as w.pow(k)
            factors.append(pow_(m.args[0], k))
        else:
            rest[m] = k
    if c != 0 and rest:
        factors.append(_mk("app", (const(c),), "exp"))
        c = Fraction(0)
    if not factors:
        return _mk("app", (u,), "exp")
    r = _from_lin(c, rest)
    return mul(exp(r), *factors)


def _exp_split(m: T):
    """monomial m = k * exp(w) * rest  ->  (w, k*rest), or None if m has no exponential factor with a non-constant argument"""
    k, f = _mono(m)
    for g, e in f.items():
        if e == 1 and g.op == "app" and g.val == "exp" and g.args[0].op != "const":
            rest = dict(f)
            del rest[g]
            return g.args[0], _from_mono(k, rest)
    return None


def log(u) -> T:
    u = const(u)
    r = _lift_ite(log, u)
    if r is not None:
        return r
    if u.op == "const" and u.val == 1:
        return ZERO
    if u.op == "const" and u.val > 0 and u.val.denominator != 1:
        # log(p/q) = log(p) - log(q): logarithms of constants are atoms over integers only
        return sub(log(const(u.val.numerator)), log(const(u.val.denominator)))
    if u.op == "app" and u.val == "exp":
        return u.args[0]
    if u.op == "add" and u.val[0] == 0 and len(u.args) == 1 and u.val[1][0] > 0 and u.val[1][0] != 1:
        # log(k*m) = log(k) + log(m) for a rational k > 0 (both sides are defined exactly when m > 0)
        return add(log(const(u.val[1][0])), log(u.args[0]))
    proper_sum = u.op == "add" and not (u.val[0] == 0 and len(u.args) == 1)
    if not proper_sum and u.op != "const":
        # log(exp(w) * rest) = w + log(rest)   (both sides are defined exactly when rest > 0)
        sp = _exp_split(u)
        if sp is not None:
            return add(sp[0], log(sp[1]))
    if proper_sum and u.val[0] >= 0:
        # log(sum_i c_i exp(w_i) r_i) = w_* + log(sum_i c_i exp(w_i - w_*) r_i): one representative for all forms that differ by a common
        # shift of the exponents (log-sum-exp with and without the subtracted maximum).  The reference w_* is chosen by a key that is
        # invariant under a common shift (the differences w_i - w_*).
        parts = [(ZERO, const(u.val[0]))] if u.val[0] != 0 else []  # (a constant summand is c0 * exp(0))
        for m, c in zip(u.args, u.val[1]):
            sp = _exp_split(m)
            if sp is None:
                parts = None
                break
            parts.append((sp[0], scale(sp[1], c)))
        if parts and len(parts) >= 2:
            best = None
            for r, (wr, _) in enumerate(parts):
                key = tuple(sorted(sub(w, wr).id for w, _ in parts))
                if best is None or key < best[0]:
                    best = (key, r)
            wr, rr = parts[best[1]]
            if wr is ZERO and not (rr.op == "const" and rr.val > 0 and rr.val != 1):
                return _mk("app", (u,), "log")  # already relative to its reference exponent
            inner = add(*[mul(exp(sub(w, wr)), rest) for w, rest in parts])
            if rr.op == "const" and rr.val > 0 and rr.val != 1:
                # the reference summand carries a positive rational weight k: log(k*(1 + ...)) = log(k) + log(1 + ...)
                return add(wr, log(rr), log(scale(inner, 1 / rr.val)))
            return add(wr, log(inner))
    return _mk("app", (u,), "log")


def sqrt(u) -> T:
    u = const(u)
    r = _lift_ite(sqrt, u)
    if r is not None:
        return r
    if u.op == "const" and u.val >= 0:
        n, dd = u.val.numerator, u.val.denominator
        rn, rd = math.isqrt(n), math.isqrt(dd)
        if rn * rn == n and rd * rd == dd:
            return const(Fraction(rn, rd))
        h = u.val / 2  # sqrt(2 q^2) = SQRT2 * q
        rn, rd = math.isqrt(h.numerator), math.isqrt(h.denominator)
        if rn * rn == h.numerator and rd * rd == h.denominator:
            return scale(named("SQRT2"), Fraction(rn, rd))
    if u.op == "add" and not (u.val[0] == 0 and len(u.args) == 1):
        # sqrt(g * s) = sqrt(g) * sqrt(s) for the positive rational content g of a sum (gcd of numerators over lcm of denominators)
        coefs = [k for k in (u.val[0],) + tuple(u.val[1]) if k != 0]
        g = Fraction(math.gcd(*[k.numerator for k in coefs]), math.lcm(*[k.denominator for k in coefs]))
        if g != 1:
            return mul(sqrt(const(g)), sqrt(scale(u, 1 / g)))
    if u.op == "add" and u.val[0] == 0 and len(u.args) == 1 and abs(u.val[1][0]) != 1:
        # sqrt(k*m) = sqrt(|k|) * sqrt(sign(k)*m) for a rational k (both sides are defined exactly when k*m >= 0)
        k = u.val[1][0]
        return mul(sqrt(const(abs(k))), sqrt(u.args[0] if k > 0 else neg(u.args[0])))
    return _mk("app", (u,), "sqrt")


def cbrt(u) -> T:
    u = const(u)
    if u.op == "const" and u.val in (0, 1):
        return u
    return _mk("app", (u,), "cbrt")


def _negative_lead(u: T) -> bool:
    """canonical sign of an argument: is the leading coefficient of u negative?  (exactly one of u, -u answers yes, unless u = 0)"""
    if u.op == "const":
        return u.val < 0
    if u.op == "add":
        c0, coefs = u.val
        return (coefs[0] if coefs else c0) < 0
    return False


def Phi(u) -> T:
    u = const(u)
    r = _lift_ite(Phi, u)
    if r is not None:
        return r
    if u.op == "const" and u.val == 0:
        return const(Fraction(1, 2))
    if _negative_lead(u):
        # Phi(-w) = 1 - Phi(w): one representative per pair of arguments (so that 1 - Phi(-x), erfc forms and Phi(x) coincide)
        return sub(ONE, _mk("app", (neg(u),), "Phi"))
    return _mk("app", (u,), "Phi")


def cos(u) -> T:
    u = const(u)
    if _negative_lead(u):
        u = neg(u)
    return _mk("app", (u,), "cos")


def sin(u) -> T:
    u = const(u)
    if _negative_lead(u):
        return neg(_mk("app", (neg(u),), "sin"))
    return _mk("app", (u,), "sin")


def floor(u) -> T:
    u = const(u)
    if u.op == "const":
        return const(u.val.numerator // u.val.denominator)
    return _mk("app", (u,), "floor")


def ceil(u) -> T:
    return neg(floor(neg(const(u))))


def pow_(u, c) -> T:
    """u ** c for a constant rational exponent c."""
    u = const(u)
    c = Fraction(c) if not isinstance(c, Fraction) else c
    if c.denominator == 1:
        return powi(u, int(c))
    if c.denominator == 2:
        return powi(sqrt(u), int(c.numerator))
    if c.denominator == 3:
        return powi(cbrt(u), int(c.numerator))
    return _mk("app", (u,), ("pow", c))


def uf(name, *args) -> T:
    """Application of an uninterpreted real function."""
    return _mk("app", tuple(const(a) for a in args), "uf:" + name)


# ---------------------------------------------------------------------------------------
# traversal utilities
# ---------------------------------------------------------------------------------------


def free_vars(t: T) -> frozenset:
    if t._fv is not None:
        return t._fv
    # iterative post-order
    stack = [t]
    while stack:
        n = stack[-1]
        if n._fv is not None:
            stack.pop()
            continue
        pend = [a for a in n.args if a._fv is None]
        if pend:
            stack.extend(pend)
            continue
        if n.op == "var":
            n._fv = frozenset((n,))
        else:
            s = frozenset()
            for a in n.args:
                s = s | a._fv
            n._fv = s
        stack.pop()
    return t._fv


def subst(t: T, mapping: Dict[T, T], memo=None) -> T:
    """Simultaneous substitution of variables (or any sub-terms) by terms; re-normalises."""
    if memo is None:
        memo = {}
    return _subst(t, mapping, memo)


def _subst(t, mapping, memo):
    r = memo.get(t)
    if r is not None:
        return r
    if t in mapping:
        r = mapping[t]
    elif not t.args:
        r = t
    else:
        # quick exit if no mapped var occurs (only valid when mapping keys are vars)
        new = [_subst(a, mapping, memo) for a in t.args]
        if all(n is a for n, a in zip(new, t.args)):
            r = t
        else:
            r = rebuild(t, new)
    memo[t] = r
    return r


def rebuild(t: T, new) -> T:
    op = t.op
    if op == "add":
        c, coefs = t.val
        return add(const(c), *[scale(n, k) for n, k in zip(new, coefs)])
    if op == "mul":
        return mul(*[powi(n, e) for n, e in zip(new, t.val)])
    if op == "ite":
        return ite(*new)
    if op in ("lt0", "le0", "eq0"):
        return _cmp(op, new[0])
    if op == "not":
        return not_(new[0])
    if op == "and":
        return and_(*new)
    if op == "app":
        v = t.val
        if v == "exp":
            return exp(new[0])
        if v == "log":
            return log(new[0])
        if v == "sqrt":
            return sqrt(new[0])
        if v == "cbrt":
            return cbrt(new[0])
        if v == "Phi":
            return Phi(new[0])
        if v == "floor":
            return floor(new[0])
        if isinstance(v, tuple) and v[0] == "pow":
            return pow_(new[0], v[1])
        return _mk("app", tuple(new), v)
    raise AssertionError(op)


def expand(t: T, _memo=None, limit=4000) -> T:
    """Distribute products over sums (polynomial expansion of the top-level arithmetic structure;
    ite / app / comparison sub-terms are atoms).  Used to recognise identities such as
    a*(x + c) = a*x + a*c syntactically."""
    if _memo is None:
        _memo = {}
    r = _memo.get(t)
    if r is not None:
        return r
    if t.op == "add":
        c, coefs = t.val
        r = add(const(c), *[scale(expand(m, _memo, limit), k) for m, k in zip(t.args, coefs)])
    elif t.op == "mul":
        # product of expanded factors; only non-negative exponents of sums are distributed
        polys = [[(Fraction(1), ONE)]]
        for f, e in zip(t.args, t.val):
            fe = expand(f, _memo, limit)
            if fe.op == "add" and e > 0 and not (fe.val[0] == 0 and len(fe.args) == 1):
                c0, coefs = fe.val
                terms_ = ([(c0, ONE)] if c0 != 0 else []) + list(zip(coefs, fe.args))
                for _ in range(e):
                    new = []
                    for (k1, m1) in polys[0]:
                        for (k2, m2) in terms_:
                            new.append((k1 * k2, mul(m1, m2)))
                    if len(new) > limit:
                        _memo[t] = t
                        return t
                    polys[0] = new
            else:
                polys[0] = [(k1, mul(m1, powi(fe, e))) for (k1, m1) in polys[0]]
        r = add(*[scale(m, k) for k, m in polys[0]])
    else:
        r = t
    _memo[t] = r
    return r


def size(t: T) -> int:
    seen = set()
    stack = [t]
    while stack:
        n = stack.pop()
        if n.id in seen:
            continue
        seen.add(n.id)
        stack.extend(n.args)
    return len(seen)


def subterms(ts: Iterable[T]):
    seen = set()
    stack = list(ts)
    out = []
    while stack:
        n = stack.pop()
        if n.id in seen:
            continue
        seen.add(n.id)
        out.append(n)
        stack.extend(n.args)
    return out


def show(t: T, depth=6) -> str:
    if depth <= 0:
        return "…"
    op = t.op
    if op == "const":
        return str(t.val)
    if op in ("named", "var"):
        return str(t.val)
    if op in ("true", "false"):
        return op
    if op == "add":
        c, coefs = t.val
        parts = [] if c == 0 else [str(c)]
        for m, k in zip(t.args, coefs):
            s = show(m, depth - 1)
            parts.append(s if k == 1 else ("-" + s if k == -1 else "%s*%s" % (k, s)))
        return "(" + " + ".join(parts) + ")"
    if op == "mul":
        return "*".join(
            show(f, depth - 1) + ("" if e == 1 else "^%d" % e) for f, e in zip(t.args, t.val)
        )
    if op == "ite":
        return "ite(%s, %s, %s)" % tuple(show(a, depth - 1) for a in t.args)
    if op in ("lt0", "le0", "eq0"):
        return "%s %s 0" % (show(t.args[0], depth - 1), {"lt0": "<", "le0": "<=", "eq0": "=="}[op])
    if op == "not":
        return "!(%s)" % show(t.args[0], depth - 1)
    if op == "and":
        return "(" + " & ".join(show(a, depth - 1) for a in t.args) + ")"
    if op == "app":
        name = t.val if isinstance(t.val, str) else "%s[%s]" % t.val
        return "%s(%s)" % (name, ", ".join(show(a, depth - 1) for a in t.args))
    return op


def evalf(t: T, env=None, memo=None):
    """Float evaluation of a term (variables from env: name -> float)."""
    env = env or {}
    if memo is None:
        memo = {}
    stack = [t]
    while stack:
        n = stack[-1]
        if n in memo:
            stack.pop()
            continue
        pend = [a for a in n.args if a not in memo]
        if pend:
            stack.extend(pend)
            continue
        stack.pop()
        a = [memo[x] for x in n.args]
        op = n.op
        if op == "const":
            r = float(n.val)
        elif op == "named":
            r = NAMED[n.val]
        elif op == "var":
            r = env[n.val]
        elif op == "true":
            r = True
        elif op == "false":
            r = False
        elif op == "add":
            c, coefs = n.val
            r = float(c) + sum(float(k) * x for k, x in zip(coefs, a))
        elif op == "mul":
            r = 1.0
            for x, e in zip(a, n.val):
                r *= x ** e
        elif op == "ite":
            r = a[1] if a[0] else a[2]
        elif op == "lt0":
            r = a[0] < 0
        elif op == "le0":
            r = a[0] <= 0
        elif op == "eq0":
            r = a[0] == 0
        elif op == "not":
            r = not a[0]
        elif op == "and":
            r = all(a)
        elif op == "app":
            v = n.val
            x = a[0] if a else None
            if v == "exp":
                r = math.exp(x)
            elif v == "log":
                r = math.log(x)
            elif v == "sqrt":
                r = math.sqrt(x)
            elif v == "cbrt":
                r = math.copysign(abs(x) ** (1 / 3), x)
            elif v == "Phi":
                r = 0.5 * math.erfc(-x / math.sqrt(2))
            elif v == "cos":
                r = math.cos(x)
            elif v == "sin":
                r = math.sin(x)
            elif v == "floor":
                r = float(math.floor(x))
            elif isinstance(v, tuple) and v[0] == "pow":
                r = x ** float(v[1])
            else:
                raise NotImplementedError("evalf of %s" % (v,))
        else:
            raise NotImplementedError(op)
        memo[n] = r
    return memo[t]


# ---------------------------------------------------------------------------------------
# symbolic differentiation
# ---------------------------------------------------------------------------------------


def D(t: T, x: T, memo=None) -> T:
    """d t / d x for a variable x (all other variables are constants)."""
    if memo is None:
        memo = {}
    return _D(t, x, memo)


def _D(t, x, memo):
    r = memo.get(t)
    if r is not None:
        return r
    if t is x:
        r = ONE
    elif not t.args or x not in free_vars(t):
        r = ZERO
    else:
        op = t.op
        if op == "add":
            c, coefs = t.val
            r = add(*[scale(_D(m, x, memo), k) for m, k in zip(t.args, coefs)])
        elif op == "mul":
            parts = []
            for i, (f, e) in enumerate(zip(t.args, t.val)):
                df = _D(f, x, memo)
                if df is ZERO:
                    continue
                others = [powi(g, e2) for j, (g, e2) in enumerate(zip(t.args, t.val)) if j != i]
                parts.append(mul(const(e), powi(f, e - 1), df, *others))
            r = add(*parts) if parts else ZERO
        elif op == "ite":
            c, a, b = t.args
            r = ite(c, _D(a, x, memo), _D(b, x, memo))
        elif op == "app":
            v = t.val
            u = t.args[0] if t.args else None
            if v == "exp":
                r = mul(t, _D(u, x, memo))
            elif v == "log":
                r = div(_D(u, x, memo), u)
            elif v == "sqrt":
                r = div(_D(u, x, memo), scale(t, 2))
            elif v == "cbrt":
                r = div(_D(u, x, memo), scale(powi(t, 2), 3))
            elif v == "Phi":
                r = mul(named("INV_SQRT_2PI"), exp(scale(powi(u, 2), Fraction(-1, 2))), _D(u, x, memo))
            elif v == "cos":
                r = neg(mul(sin(u), _D(u, x, memo)))
            elif v == "sin":
                r = mul(cos(u), _D(u, x, memo))
            elif v == "floor":
                r = ZERO
            elif isinstance(v, tuple) and v[0] == "pow":
                r = mul(const(v[1]), pow_(u, v[1] - 1), _D(u, x, memo))
            elif isinstance(v, str) and v.startswith("uf:"):
                parts = []
                for k, a in enumerate(t.args):
                    da = _D(a, x, memo)
                    if da is ZERO:
                        continue
                    parts.append(mul(_mk("app", t.args, v + "'%d" % k), da))
                r = add(*parts) if parts else ZERO
            else:
                raise NotImplementedError("D of %s" % (v,))
        else:
            raise NotImplementedError("D of %s" % op)
    memo[t] = r
    return r
