#!/bin/bash
# verify_seed.sh <prop> <mK> : confirm a sub-agent's seeded change in a scratch worktree
# (suite unchanged with the patch; demo fails with it and passes without), then file it under /verif/seeded/.
set -u
P=$1; M=$2
SRC=${MUTBASE:-/tmp/mut}/${P}_out/$M
WT=/tmp/sv/${P}_$M
rm -rf $WT; mkdir -p /tmp/sv
git -C /repo worktree add -q --detach $WT HEAD || exit 2
cd $WT
res() { echo "$1" >> $SRC/verify.log; }
: > $SRC/verify.log
PYTHONPATH=$WT /venv/bin/python $SRC/demo.py >/dev/null 2>&1; res "demo_without_patch_exit=$?"
if ! git apply $SRC/patch.diff 2>>$SRC/verify.log; then res "patch_applies=no"; git -C /repo worktree remove --force $WT; exit 1; fi
res "patch_applies=yes"
PYTHONPATH=$WT /venv/bin/python $SRC/demo.py >/dev/null 2>&1; res "demo_with_patch_exit=$?"
OMP_NUM_THREADS=2 PYTHONPATH=$WT /venv/bin/python -m pytest -q -p no:cacheprovider --timeout=900 -k "not gpu" > $SRC/suite_verify.txt 2>&1
tail -3 $SRC/suite_verify.txt | grep -E "passed|failed" >> $SRC/verify.log
grep FAILED $SRC/suite_verify.txt | grep -v test_generate_rough_bergomi >> $SRC/verify.log
cd /; git -C /repo worktree remove --force $WT
cat $SRC/verify.log
