"""Soundness test of the instantiated axioms: every instance the solver is given must be TRUE of the real functions.
Random argument terms are built over a few variables, the special-function applications are abstracted exactly as for a
query, the axiom instances are generated, and each instance is evaluated numerically with every abstraction variable set to
the true function value at its argument.  An instance that evaluates to False would make `unsat` answers unsound."""
import math
import random
from fractions import Fraction

from symtorch import smt, terms as tm


def run(n_rounds=40, seed=11):
    rng = random.Random(seed)
    fails = []
    n_inst = 0
    for r in range(n_rounds):
        xs = [tm.var("x%d" % i) for i in range(3)]
        env = {"x%d" % i: rng.choice([-1.5, -0.75, -0.25, 0.0, 0.25, 0.5, 1.0, 2.0]) for i in range(3)}

        def lin():
            k = [Fraction(rng.choice([-2, -1, -1, 0, 1, 1, 2]), rng.choice([1, 1, 2])) for _ in xs]
            return tm.add(tm.const(Fraction(rng.choice([-1, 0, 0, 1]), 2)), *[tm.scale(x, c) for x, c in zip(xs, k)])

        args = [lin() for _ in range(4)]
        args += [tm.add(args[0], args[1]), tm.neg(args[0]), tm.scale(tm.mul(args[2], args[2]), Fraction(-1, 2)), tm.mul(args[0], args[1])]
        pos = [tm.add(tm.mul(a, a), tm.const(Fraction(1, 4))) for a in args[:4]] + [tm.mul(tm.add(tm.mul(args[0], args[0]), tm.const(1)), tm.add(tm.mul(args[1], args[1]), tm.const(2)))]
        pos += [tm.add(tm.mul(args[0], args[0]), tm.const(1)), tm.add(tm.mul(args[1], args[1]), tm.const(2))]
        apps = [tm.exp(a) for a in args] + [tm.Phi(a) for a in args[:6]] + [tm.cos(a) for a in args[:3]] + [tm.sin(a) for a in args[:3]]
        apps += [tm.log(p) for p in pos] + [tm.sqrt(p) for p in pos[:4]] + [tm.cbrt(p) for p in pos[:3]] + [tm.cbrt(tm.neg(pos[0]))]
        apps += [tm.log(tm.exp(args[0])), tm.exp(tm.log(pos[1])), tm.pow_(pos[2], Fraction(2, 5))]
        apps += [tm.mul(tm.named("INV_SQRT_2PI"), tm.exp(tm.scale(tm.mul(args[2], args[2]), Fraction(-1, 2)))), tm.named("SQRT2"), tm.named("PI"), tm.named("LOG_SQRT_2PI")]
        ab = smt.Abstraction()
        for a in apps:
            ab.run(a)
        inst = smt.axiom_instances(ab, ("basic", "mono", "bounds"))
        # true values of the abstraction variables
        full = dict(env)
        for key, lst in ab.atoms.items():
            for v, a_args, orig in lst:
                full[v.val] = tm.evalf(orig, env)
        for f in inst:
            n_inst += 1
            try:
                ok = tm.evalf(f, full)
            except (ValueError, ZeroDivisionError, OverflowError):
                continue
            if ok is False:
                # tolerate float noise in equalities: re-evaluate the two sides with a tolerance
                if not _holds_with_tolerance(f, full):
                    fails.append("round %d: %s" % (r, tm.show(f, 8)[:300]))
    return n_inst, fails


def _holds_with_tolerance(f, env, tol=1e-9):
    op = f.op
    if op == "eq0":
        return abs(tm.evalf(f.args[0], env)) <= tol * 10
    if op == "le0":
        return tm.evalf(f.args[0], env) <= tol
    if op == "lt0":
        return tm.evalf(f.args[0], env) < tol
    if op == "and":
        return all(_holds_with_tolerance(a, env, tol) for a in f.args)
    if op == "not":
        inner = f.args[0]
        if inner.op == "and":  # not(and(l1..ln)) = or(not l_i): an implication
            return any(_holds_with_tolerance(tm.not_(l), env, tol) if l.op != "not" else _holds_with_tolerance(l.args[0], env, tol) for l in inner.args) or bool(tm.evalf(f, env))
        if inner.op == "eq0":
            return True if abs(tm.evalf(inner.args[0], env)) > tol else False
        return bool(tm.evalf(f, env))
    return bool(tm.evalf(f, env))
