"""C15 — fit() performs exactly the documented training protocol."""
import numpy as np
import torch

from harness.lib import Case
from harness import common as cm
from harness.c06 import SimStub
from symtorch import api, autograd as ag, ctx as cx, facades, terms as tm
from symtorch import tensor as st
from symtorch.api import elem

META = {
    "stubs": ["simulate(): fresh symbolic buffers per call (indexed by call number; the arguments of every call are recorded)",
              "optimiser: SymSGD (theta <- theta - lr * grad, symbolic lr) passed as an instance and as a class",
              "autograd: symbolic differentiation (see C14)", "float(loss.item()) for the progress-bar text is a declared sink (placeholder 0.0); _format_float (progress text) has an empty body"],
    "axioms": ["polynomial / ite arithmetic; exp/log for the entropic criterion"],
    "assumptions": ["epoch counts k<=2 (quick) / 3 (thorough); N=2 paths, T=3 steps; update rules of torch's own optimisers are outside the claim",
                    "the reference loop is written in the harness from the property text: simulate, criterion(portfolio, payoff), symbolic gradient, SGD step"],
}


class SymSGD(torch.optim.Optimizer):
    n_instances = 0

    def __init__(self, params, lr=None):
        lr = lr if lr is not None else SymSGD.default_lr
        super().__init__(params, {"lr": 0.0})
        self.lr = lr
        self.steps = 0
        self.zero_grads = 0
        SymSGD.n_instances += 1
        SymSGD.last = self

    def zero_grad(self, set_to_none=True):
        self.zero_grads += 1
        super().zero_grad(set_to_none=set_to_none)

    @torch.no_grad()
    def step(self, closure=None):
        self.steps += 1
        for g in self.param_groups:
            for p in g["params"]:
                if p.grad is None:
                    continue
                p.sub_(p.grad * self.lr)


class RecLinear(torch.nn.Linear):
    def forward(self, x):
        self.__dict__.setdefault("log", []).append((self.training, torch.is_grad_enabled()))
        return super().forward(x)


def make(c, crit_name, tag=""):
    from pfhedge import nn

    feats = ["moneyness", "time_to_maturity", "prev_hedge"]
    W = api.tensor(c, "W", (1, 3), lo=-1, hi=1)
    b = api.tensor(c, "b", (1,), lo=-1, hi=1)
    with facades.real_torch():
        lin = RecLinear(3, 1).double()
        crit = nn.ExpectedShortfall(0.5) if crit_name == "es" else nn.EntropicRiskMeasure(1.0)
    lin.weight = torch.nn.Parameter(W if c.mode == "sym" else W.clone())
    lin.bias = torch.nn.Parameter(b if c.mode == "sym" else b.clone())
    hedger = cm.make_hedger(c, feats, 1, criterion=crit, model=lin)
    return hedger, lin


def values(c, t):
    """parameter values in the original symbols"""
    if isinstance(t, st.SymTensor):
        return [api.SymReal(ag.resolve(x, c)) for x in t._p.reshape(-1)]
    return [float(x) for x in t.detach().reshape(-1)]


def _quiet_formatting():
    """progress-bar text formatting gets an empty body (formatting is not the subject)"""
    import pfhedge.nn.modules.hedger as HM

    HM._format_float = lambda v: ""


def fit_case(k, n_times, validation, opt_as_class, crit_name, stale_grad=False, eval_before=False):
    def fn(c):
        _quiet_formatting()
        c.env["track_grad"] = True
        c.env["float_sink_ok"] = True
        N, T = 2, 3
        lr = api.real(c, "lr", pos=True, hi=1)
        env = cm.market(c, N, T, "european", "underlier", cost_sym=False)
        deriv = env["derivative"]
        deriv.ul().cost = api.real(c, "cost", pos=True, hi=1)
        hedger, lin = make(c, crit_name)
        if stale_grad:
            # the parameters already hold a gradient from an earlier backward() (gradients are not accumulated: fit must start clean)
            pre = SimStub(c, deriv, N, T, prefix="pre")
            hedger.compute_loss(deriv, n_paths=N).backward()
        if eval_before:
            # the hedger was left in evaluation mode by earlier use (a fit with validation, a price()): training starts in training mode
            hedger.eval()
        sim = SimStub(c, deriv, N, T)
        init = (api.real(c, "s_init", pos=True),)
        SymSGD.default_lr = lr
        if opt_as_class:
            opt = SymSGD
        else:
            opt = SymSGD(hedger.model.parameters(), lr)
        hist = hedger.fit(deriv, n_epochs=k, n_paths=N, n_times=n_times, optimizer=opt, init_state=init, verbose=False, validation=validation)
        opt_obj = SymSGD.last
        per_epoch = 1 + (n_times if validation else 0)
        c.check("exactly k optimiser steps", opt_obj.steps == k)
        c.check("gradients are cleared before every step", opt_obj.zero_grads == k)
        c.check("one fresh training batch per epoch (+ n_times validation batches)", len(sim.args) == k * per_epoch)
        c.check("every batch has the requested size and initial state", all(a[0] == N and a[1] is init for a in sim.args))
        # modes: T-1 forwards per batch (stepwise branch)
        log = (lin.log if k else [])
        if stale_grad:
            log = log[T - 1:]  # drop the forwards of the preliminary backward pass
        per_batch = T - 1
        ok_train, ok_val = True, True
        for e in range(k):
            base = e * per_epoch * per_batch
            for tr, ge in log[base: base + per_batch]:
                ok_train = ok_train and tr and ge
            for tr, ge in log[base + per_batch: base + per_epoch * per_batch]:
                ok_val = ok_val and (not tr) and (not ge)
        c.check("number of model forwards", len(log) == k * per_epoch * per_batch)
        c.check("training batches: model in training mode, gradients enabled", ok_train)
        c.check("validation batches: model in evaluation mode, gradients disabled", ok_val)
        if validation:
            c.check("one validation loss per epoch", hist is not None and len(hist) == k)
        else:
            c.check("history is None when validation is off", hist is None)
        # reference loop on the same simulated batches
        ref, lin2 = make(c, crit_name)
        theta = [lin2.weight, lin2.bias]
        ref_hist = []
        for e in range(k):
            deriv.ul().register_buffer("spot", sim.spots[e * per_epoch])
            ref.train()
            loss = ref.criterion(ref.compute_portfolio(deriv), deriv.payoff())
            grads = torch.autograd.grad(loss, theta)
            with torch.no_grad():
                new = [p - g * lr for p, g in zip(theta, grads)]
            lin2.weight = torch.nn.Parameter(new[0] if c.mode == "sym" else new[0].clone())
            lin2.bias = torch.nn.Parameter(new[1] if c.mode == "sym" else new[1].clone())
            theta = [lin2.weight, lin2.bias]
            if validation:
                ref.eval()
                vs = []
                for j in range(n_times):
                    deriv.ul().register_buffer("spot", sim.spots[e * per_epoch + 1 + j])
                    with torch.no_grad():
                        vs.append(elem(ref.criterion(ref.compute_portfolio(deriv), deriv.payoff())))
                ref_hist.append(sum(vs[1:], vs[0]) / n_times)
        got = values(c, lin.weight) + values(c, lin.bias)
        want = values(c, lin2.weight) + values(c, lin2.bias)
        for i, (g_, w_) in enumerate(zip(got, want)):
            c.check("parameter %d after fit == explicit simulate/loss/backward/step loop" % i, api.eq(g_, w_, tol=1e-9))
        if validation:
            for e in range(k):
                h = hist[e]
                h = api.SymReal(ag.resolve(cx._t(h), c)) if c.mode == "sym" else float(h)
                r = ref_hist[e]
                r = api.SymReal(ag.resolve(cx._t(r), c)) if c.mode == "sym" else float(r)
                c.check("validation loss of epoch %d == mean of n_times evaluations with the updated parameters" % e, api.eq(h, r, tol=1e-9))
        if k >= 1:
            w0 = api.tensor(c, "W", (1, 3), lo=-1, hi=1)
            c.control("control:parameters unchanged by fit", api.eq(got[0], elem(w0, 0, 0)))

    return fn


def misc_case():
    def fn(c):
        from pfhedge.nn import Hedger, MultiLayerPerceptron

        _quiet_formatting()
        c.env["track_grad"] = True
        c.env["float_sink_ok"] = True
        N, T = 2, 3
        env = cm.market(c, N, T, "european", "underlier", cost_sym=False)
        deriv = env["derivative"]
        hedger, lin = make(c, "es")
        try:
            hedger.fit(deriv, n_epochs=1, n_paths=N, optimizer="adam", verbose=False)
            ok = False
        except TypeError:
            ok = True
        c.check("a non-optimiser argument raises TypeError", ok)
        # lazy model: exactly one placeholder simulate(n_paths=1) + forward before the optimiser is built
        with facades.real_torch():
            mlp = MultiLayerPerceptron(n_layers=1, n_units=2).double()
            h2 = Hedger(mlp, ["moneyness", "time_to_maturity"])
        sim = SimStub(c, deriv, N, T)

        class Opt(torch.optim.SGD):
            built_with_lazy = None

            def __init__(self, params):
                params = list(params)
                from torch.nn.parameter import is_lazy

                Opt.built_with_lazy = any(is_lazy(p) for p in params)
                Opt.sim_calls_at_build = list(sim.args)
                super().__init__(params, lr=0.1)

        h2.fit(deriv, n_epochs=1, n_paths=N, optimizer=Opt, verbose=False, validation=False)
        c.check("lazy model: one placeholder simulate(n_paths=1) before the optimiser is built", [a[0] for a in Opt.sim_calls_at_build] == [1])
        c.check("lazy model: parameters materialised before the optimiser is built", Opt.built_with_lazy is False)
        c.check("lazy model: then one training batch of the requested size", [a[0] for a in sim.args] == [1, N])
        c.check("reach", api.eq(elem(deriv.ul().spot, 0, 0), elem(deriv.ul().spot, 0, 0) + 0))

    return fn


def cases():
    cs = []
    enc = ("Hedger.fit", "Hedger._configure_optimizer", "Hedger.compute_loss", "ensemble_mean", "has_lazy", "Hedger.compute_portfolio/compute_hedge",
           "save_prev_output")
    fam = ("basic",)
    for k in (0, 1, 2):
        cs.append(Case("fit/k=%d/es/validation/n_times=1/instance" % k, fit_case(k, 1, True, False, "es"), encodes=enc, families=fam, timeout=120, max_paths=16,
                       bounds="k=%d epochs, N=2 T=3, SymSGD instance, validation on" % k))
    cs.append(Case("fit/k=2/es/validation/n_times=2/class", fit_case(2, 2, True, True, "es"), encodes=enc, families=fam, timeout=120, max_paths=16,
                   bounds="k=2, n_times=2, optimiser passed as a class"))
    cs.append(Case("fit/k=2/es/no-validation/class", fit_case(2, 1, False, True, "es"), encodes=enc, families=fam, timeout=120, max_paths=16, bounds="k=2, validation off"))
    cs.append(Case("fit/k=1/es/validation/stale-gradient", fit_case(1, 1, True, False, "es", stale_grad=True), encodes=enc, families=fam, timeout=120, max_paths=16,
                   bounds="k=1, parameters hold a gradient from an earlier backward() when fit starts"))
    cs.append(Case("fit/k=1/es/no-validation/eval-mode-before", fit_case(1, 1, False, False, "es", eval_before=True), encodes=enc, families=fam, timeout=120,
                   max_paths=16, bounds="k=1, validation off, hedger left in evaluation mode by earlier use"))
    cs.append(Case("fit/k=1/entropic/validation/instance", fit_case(1, 1, True, False, "entropic"), encodes=enc, families=fam, timeout=120, max_paths=16, bounds="k=1 entropic"))
    cs.append(Case("fit/k=3/es/validation/n_times=2/instance", fit_case(3, 2, True, False, "es"), tier="thorough", encodes=enc, families=fam, timeout=600, max_paths=16, bounds="k=3"))
    cs.append(Case("fit/k=2/entropic/validation/class", fit_case(2, 1, True, True, "entropic"), tier="thorough", encodes=enc, families=fam, timeout=600, max_paths=16, bounds="k=2 entropic"))
    cs.append(Case("fit/misc", misc_case(), encodes=enc, families=fam, timeout=60, bounds="TypeError for a non-optimiser; lazy model protocol"))
    return cs
