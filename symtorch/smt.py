"""Export of terms to z3, Ackermannisation of special functions with instantiated axioms,
and the solve() entry point.  Only facts that are true of the real functions are added as
axioms, so `unsat` is sound; `sat` may be spurious and is always replayed by the caller."""
from __future__ import annotations

import itertools
import time
from fractions import Fraction
from typing import Dict, List, Optional, Sequence

import z3

from . import terms as tm
from .terms import T

STATS = {"queries": 0, "time": 0.0, "unsat": 0, "sat": 0, "unknown": 0}

ABSTRACTED = ("exp", "log", "sqrt", "cbrt", "Phi", "cos", "sin", "pow")


# ---------------------------------------------------------------------------------------
# Ackermannisation
# ---------------------------------------------------------------------------------------


class Abstraction:
    def __init__(self, ack_uf: bool = False, linearize: bool = False):
        self.ack_uf = ack_uf
        self.linearize = linearize
        self.memo: Dict[T, T] = {}
        self.atoms: Dict[str, List[tuple]] = {}  # fname -> [(fresh var, abstracted args, original)]
        self.counter = 0
        self.named_used = set()

    def run(self, t: T) -> T:
        memo = self.memo
        stack = [t]
        while stack:
            n = stack[-1]
            if n in memo:
                stack.pop()
                continue
            pend = [a for a in n.args if a not in memo]
            if pend:
                stack.extend(pend)
                continue
            stack.pop()
            if not n.args:
                if n.op == "named":
                    self.named_used.add(n.val)
                memo[n] = n
                continue
            new = [memo[a] for a in n.args]
            if n.op == "app":
                fname = tm.fname_of(n)
                is_uf = isinstance(n.val, str) and n.val.startswith("uf:")
                if fname in ABSTRACTED or (is_uf and self.ack_uf):
                    key = n.val if not isinstance(n.val, tuple) else "pow[%s]" % n.val[1]
                    self.counter += 1
                    v = tm.var("AT.%s#%d" % (key, self.counter))
                    self.atoms.setdefault(key, []).append((v, tuple(new), n))
                    memo[n] = v
                    continue
                if all(a is b for a, b in zip(new, n.args)):
                    memo[n] = n
                else:
                    memo[n] = tm._mk("app", tuple(new), n.val)
                continue
            if all(a is b for a, b in zip(new, n.args)):
                r = n
            else:
                r = tm.rebuild(n, new)
            if self.linearize and r.op == "mul":
                # every non-linear monomial becomes an opaque real (a weakening: unsat stays sound)
                self.counter += 1
                v = tm.var("AT.mul#%d" % self.counter)
                key = ("mul", r)
                prev = self.memo.get(key)
                if prev is None:
                    self.memo[key] = v
                    r = v
                else:
                    r = prev
            memo[n] = r
        return memo[t]


def axiom_instances(ab: Abstraction, families=("basic", "mono", "bounds"), max_triples=4000) -> List[T]:
    """Finite instances of true facts about the abstracted functions for the atoms that occur."""
    out: List[T] = []
    A = ab.atoms
    mono = "mono" in families
    bounds = "bounds" in families
    Z, O = tm.ZERO, tm.ONE

    def pairs(lst):
        return itertools.combinations(lst, 2)

    # ---- named constants
    if "PI" in ab.named_used or "INV_SQRT_2PI" in ab.named_used:
        pi = tm.named("PI")
        out.append(tm.lt(tm.const(Fraction(31415926, 10000000)), pi))
        out.append(tm.lt(pi, tm.const(Fraction(31415927, 10000000))))
    if "SQRT2" in ab.named_used:
        s2 = tm.named("SQRT2")
        out.append(tm.gt(s2, Z))
        out.append(tm.eq(tm.mul(s2, s2), tm.const(2)))
    if "LOG_SQRT_2PI" in ab.named_used:
        l = tm.named("LOG_SQRT_2PI")
        out.append(tm.lt(tm.const(Fraction(9189385, 10000000)), l))
        out.append(tm.lt(l, tm.const(Fraction(9189386, 10000000))))
    if "INV_SQRT_2PI" in ab.named_used:
        c = tm.named("INV_SQRT_2PI")
        out.append(tm.gt(c, Z))
        out.append(tm.eq(tm.mul(c, c, tm.const(2), tm.named("PI")), O))

    # ---- exp
    E = A.get("exp", [])
    for e, (u,), _ in E:
        out.append(tm.gt(e, Z))
        out.append(tm.implies(tm.eq(u, Z), tm.eq(e, O)))
        if bounds:
            out.append(tm.ge(e, tm.add(O, u)))
            out.append(tm.implies(tm.lt(u, Z), tm.lt(e, O)))
            out.append(tm.implies(tm.gt(u, Z), tm.gt(e, O)))
    for (e1, (u1,), _), (e2, (u2,), _) in pairs(E):
        out.append(tm.implies(tm.eq(u1, u2), tm.eq(e1, e2)))
        out.append(tm.implies(tm.eq(u1, tm.neg(u2)), tm.eq(tm.mul(e1, e2), O)))
        if mono:
            out.append(tm.implies(tm.lt(u1, u2), tm.lt(e1, e2)))
            out.append(tm.implies(tm.lt(u2, u1), tm.lt(e2, e1)))
    syntactic = len(E) > 12
    xm = {}
    for i, (ei, (ui,), _) in enumerate(E):
        for j, (ej, (uj,), _) in enumerate(E):
            if j == i:
                continue
            for k in range(j, len(E)):
                if k == i:
                    continue
                ek, (uk,), _ = E[k]
                cond = tm.eq(ui, tm.add(uj, uk))
                if cond is tm.FALSE:
                    continue
                if syntactic and cond is not tm.TRUE:
                    # recognise the identity after polynomial expansion (a*(x+c) = a*x + a*c)
                    if tm.expand(tm.sub(ui, tm.add(uj, uk)), xm) is not tm.ZERO:
                        continue
                    cond = tm.TRUE
                out.append(tm.implies(cond, tm.eq(ei, tm.mul(ej, ek))))

    # ---- log (facts conditional on positivity of the argument)
    L = A.get("log", [])
    for l, (u,), _ in L:
        pos = tm.gt(u, Z)
        out.append(tm.implies(tm.eq(u, O), tm.eq(l, Z)))
        if bounds:
            out.append(tm.implies(pos, tm.le(l, tm.sub(u, O))))
            out.append(tm.implies(tm.gt(u, O), tm.gt(l, Z)))
            out.append(tm.implies(tm.and_(pos, tm.lt(u, O)), tm.lt(l, Z)))
    for (l1, (u1,), _), (l2, (u2,), _) in pairs(L):
        both = tm.and_(tm.gt(u1, Z), tm.gt(u2, Z))
        out.append(tm.implies(tm.eq(u1, u2), tm.eq(l1, l2)))
        out.append(tm.implies(tm.and_(both, tm.eq(tm.mul(u1, u2), O)), tm.eq(l1, tm.neg(l2))))
        if mono:
            out.append(tm.implies(tm.and_(both, tm.lt(u1, u2)), tm.lt(l1, l2)))
            out.append(tm.implies(tm.and_(both, tm.lt(u2, u1)), tm.lt(l2, l1)))
    syntactic = len(L) > 8
    for i, (li, (ui,), _) in enumerate(L):
        for j, (lj, (uj,), _) in enumerate(L):
            if j == i:
                continue
            for k in range(j, len(L)):
                if k == i:
                    continue
                lk, (uk,), _ = L[k]
                cond = tm.eq(ui, tm.mul(uj, uk))
                if cond is tm.FALSE or (syntactic and cond is not tm.TRUE):
                    continue
                out.append(
                    tm.implies(
                        tm.and_(tm.gt(uj, Z), tm.gt(uk, Z), cond),
                        tm.eq(li, tm.add(lj, lk)),
                    )
                )
    # exp/log inverse pairs
    for e, (u,), _ in E:
        for l, (w,), _ in L:
            out.append(tm.implies(tm.eq(w, e), tm.eq(l, u)))
            out.append(tm.implies(tm.and_(tm.gt(w, Z), tm.eq(u, l)), tm.eq(e, w)))

    # ---- sqrt / cbrt
    for q, (u,), _ in A.get("sqrt", []):
        out.append(tm.implies(tm.ge(u, Z), tm.and_(tm.ge(q, Z), tm.eq(tm.mul(q, q), u))))
    for (q1, (u1,), _), (q2, (u2,), _) in pairs(A.get("sqrt", [])):
        out.append(tm.implies(tm.eq(u1, u2), tm.eq(q1, q2)))
    for c, (u,), _ in A.get("cbrt", []):
        out.append(tm.eq(tm.mul(c, c, c), u))
        out.append(tm.iff(tm.ge(c, Z), tm.ge(u, Z)))
    for (q1, (u1,), _), (q2, (u2,), _) in pairs(A.get("cbrt", [])):
        out.append(tm.implies(tm.eq(u1, u2), tm.eq(q1, q2)))

    # ---- Phi
    P = A.get("Phi", [])
    for f, (u,), _ in P:
        out.append(tm.gt(f, Z))
        out.append(tm.lt(f, O))
        out.append(tm.implies(tm.eq(u, Z), tm.eq(f, tm.const(Fraction(1, 2)))))
        if bounds:
            out.append(tm.implies(tm.gt(u, Z), tm.gt(f, tm.const(Fraction(1, 2)))))
            out.append(tm.implies(tm.lt(u, Z), tm.lt(f, tm.const(Fraction(1, 2)))))
        # u*Phi(u) + phi(u) > 0 with phi(u) = C*exp(-u^2/2), for exp atoms with that argument
        for e, (w,), _ in E:
            out.append(
                tm.implies(
                    tm.eq(w, tm.scale(tm.mul(u, u), Fraction(-1, 2))),
                    tm.gt(tm.add(tm.mul(u, f), tm.mul(tm.named("INV_SQRT_2PI"), e)), Z),
                )
            )
            ab.named_used.add("INV_SQRT_2PI")
    for (f1, (u1,), _), (f2, (u2,), _) in pairs(P):
        out.append(tm.implies(tm.eq(u1, u2), tm.eq(f1, f2)))
        out.append(tm.implies(tm.eq(u1, tm.neg(u2)), tm.eq(tm.add(f1, f2), O)))
        if mono:
            out.append(tm.implies(tm.lt(u1, u2), tm.lt(f1, f2)))
            out.append(tm.implies(tm.lt(u2, u1), tm.lt(f2, f1)))
    if P and "INV_SQRT_2PI" in ab.named_used:
        c = tm.named("INV_SQRT_2PI")
        out.append(tm.gt(c, Z))

    # ---- cos / sin
    C = A.get("cos", [])
    S = A.get("sin", [])
    for c, (u,), _ in C + S:
        out.append(tm.le(c, O))
        out.append(tm.ge(c, tm.neg(O)))
    for c, (u,), _ in C:
        for s, (w,), _ in S:
            out.append(tm.implies(tm.eq(u, w), tm.eq(tm.add(tm.mul(c, c), tm.mul(s, s)), O)))
    for lst in (C, S):
        for (f1, (u1,), _), (f2, (u2,), _) in pairs(lst):
            out.append(tm.implies(tm.eq(u1, u2), tm.eq(f1, f2)))

    # ---- general constant powers and Ackermannised uninterpreted functions: congruence
    for key, lst in A.items():
        if key.startswith("pow[") or key.startswith("uf:"):
            for (f1, a1, _), (f2, a2, _) in pairs(lst):
                if len(a1) != len(a2):
                    continue
                out.append(tm.implies(tm.and_(*[tm.eq(x, y) for x, y in zip(a1, a2)]), tm.eq(f1, f2)))
            if key.startswith("pow["):
                for f, (u,), _ in lst:
                    out.append(tm.implies(tm.gt(u, Z), tm.gt(f, Z)))
    return [o for o in out if o is not tm.TRUE]


# ---------------------------------------------------------------------------------------
# z3 export
# ---------------------------------------------------------------------------------------


class Z3Export:
    def __init__(self):
        self.memo: Dict[T, object] = {}
        self.vars: Dict[str, object] = {}
        self.ufs: Dict[tuple, object] = {}

    def q(self, fr: Fraction):
        return z3.RealVal(str(fr.numerator) + "/" + str(fr.denominator)) if fr.denominator != 1 else z3.RealVal(fr.numerator)

    def conv(self, t: T):
        memo = self.memo
        stack = [t]
        while stack:
            n = stack[-1]
            if n in memo:
                stack.pop()
                continue
            pend = [a for a in n.args if a not in memo]
            if pend:
                stack.extend(pend)
                continue
            stack.pop()
            memo[n] = self._one(n, [memo[a] for a in n.args])
        return memo[t]

    def _one(self, n: T, a):
        op = n.op
        if op == "const":
            return self.q(n.val)
        if op == "true":
            return z3.BoolVal(True)
        if op == "false":
            return z3.BoolVal(False)
        if op == "named":
            v = self.vars.get("NC." + n.val)
            if v is None:
                v = self.vars["NC." + n.val] = z3.Real("NC." + n.val)
            return v
        if op == "var":
            v = self.vars.get(n.val)
            if v is None:
                v = z3.Bool(n.val) if n.sort == "B" else z3.Real(n.val)
                self.vars[n.val] = v
            return v
        if op == "add":
            c, coefs = n.val
            parts = [] if c == 0 else [self.q(c)]
            for x, k in zip(a, coefs):
                parts.append(x if k == 1 else self.q(k) * x)
            return parts[0] if len(parts) == 1 else z3.Sum(parts)
        if op == "mul":
            num, den = [], []
            for x, e in zip(a, n.val):
                (num if e > 0 else den).extend([x] * abs(e))
            r = z3.Product(num) if len(num) > 1 else (num[0] if num else z3.RealVal(1))
            if den:
                d = z3.Product(den) if len(den) > 1 else den[0]
                r = r / d
            return r
        if op == "ite":
            return z3.If(a[0], a[1], a[2])
        if op == "lt0":
            return a[0] < 0
        if op == "le0":
            return a[0] <= 0
        if op == "eq0":
            return a[0] == 0
        if op == "not":
            return z3.Not(a[0])
        if op == "and":
            return z3.And(a)
        if op == "app":
            v = n.val
            if v == "floor":
                return z3.ToReal(z3.ToInt(a[0]))
            if isinstance(v, str) and v.startswith("uf:"):
                key = (v, len(a))
                f = self.ufs.get(key)
                if f is None:
                    f = self.ufs[key] = z3.Function(v, *([z3.RealSort()] * (len(a) + 1)))
                return f(*a)
            raise AssertionError("special function %s reached the exporter un-abstracted" % (v,))
        raise AssertionError(op)


class Result:
    def __init__(self, status, model=None, seconds=0.0, n_atoms=0, n_axioms=0, size=0, reason=""):
        self.status = status  # 'unsat' | 'sat' | 'unknown'
        self.model = model or {}
        self.seconds = seconds
        self.n_atoms = n_atoms
        self.n_axioms = n_axioms
        self.size = size
        self.reason = reason
        self.smt2 = None

    def __repr__(self):
        return "Result(%s, %.3fs, atoms=%d)" % (self.status, self.seconds, self.n_atoms)


def _val_to_fraction(v):
    if z3.is_rational_value(v):
        return Fraction(v.numerator_as_long(), v.denominator_as_long())
    if z3.is_algebraic_value(v):
        a = v.approx(20)
        return Fraction(a.numerator_as_long(), a.denominator_as_long())
    if z3.is_true(v):
        return True
    if z3.is_false(v):
        return False
    try:
        return Fraction(str(v))
    except Exception:
        return None


def solve(
    hyps: Sequence[T],
    timeout_s: float = 30.0,
    families=("basic", "mono", "bounds"),
    ack_uf: bool = False,
    want_model: bool = True,
    keep_smt2: bool = False,
    tactic: Optional[str] = None,
    linearize: bool = False,
) -> Result:
    """Satisfiability of the conjunction of `hyps` (terms of Boolean sort)."""
    t0 = time.time()
    hyps = [h for h in hyps if h is not tm.TRUE]
    if any(h is tm.FALSE for h in hyps):
        STATS["queries"] += 1
        STATS["unsat"] += 1
        return Result("unsat", seconds=0.0, reason="trivially false hypothesis")
    ab = Abstraction(ack_uf=ack_uf, linearize=linearize)
    hs = [ab.run(h) for h in hyps]
    ax = axiom_instances(ab, families) if not linearize else []
    # axioms may contain special applications only through abstracted args: they are built from
    # abstracted terms, so no further abstraction is needed
    ex = Z3Export()
    if tactic:
        s = z3.Tactic(tactic).solver()
    else:
        s = z3.Solver()
    s.set("timeout", int(timeout_s * 1000))
    for h in hs:
        s.add(ex.conv(h))
    for a in ax:
        s.add(ex.conv(a))
    n_atoms = sum(len(v) for v in ab.atoms.values())
    r = s.check()
    dt = time.time() - t0
    STATS["queries"] += 1
    STATS["time"] += dt
    status = str(r)
    STATS[status] = STATS.get(status, 0) + 1
    res = Result(status, seconds=dt, n_atoms=n_atoms, n_axioms=len(ax), size=sum(tm.size(h) for h in hs))
    if status == "unknown":
        res.reason = s.reason_unknown()
    if keep_smt2:
        res.smt2 = s.to_smt2()
    if status == "sat" and want_model:
        m = s.model()
        model = {}
        for name, v in ex.vars.items():
            val = m.eval(v, model_completion=True)
            model[name] = _val_to_fraction(val)
        res.model = model
        res.z3model = m
        res.export = ex
    return res


CROSS = {"asked": 0, "agree": 0, "cvc5_unknown": 0, "disagree": []}


def cvc5_check(smt2: str, timeout_ms=20000):
    """Second opinion: run the exact query z3 saw (SMT-LIB2 text) through cvc5."""
    import cvc5

    slv = cvc5.Solver()
    slv.setOption("tlimit-per", str(int(timeout_ms)))
    import re

    has_int = "to_int" in smt2 or "to_real" in smt2
    has_uf = re.search(r"declare-fun \S+ \((Real|Bool| )+\)", smt2) is not None and re.search(r"declare-fun \S+ \([^)]+\)", smt2) is not None
    if has_int:
        slv.setLogic("ALL")
    else:
        slv.setLogic("QF_UFNRA" if has_uf else "QF_NRA")
        try:
            slv.setOption("nl-cov", "true")
        except Exception:  # noqa: BLE001
            pass
    p = cvc5.InputParser(slv)
    p.setStringInput(cvc5.InputLanguage.SMT_LIB_2_6, smt2, "q")
    sm = p.getSymbolManager()
    res = "unknown"
    while True:
        cmd = p.nextCommand()
        if cmd.isNull():
            break
        out = str(cmd.invoke(slv, sm)).strip()
        if out in ("sat", "unsat", "unknown"):
            res = out
    return res


def _cvc5_forked(smt2, timeout_ms):
    """cvc5 in a forked child with a hard deadline (its own time limit is not always honoured by the nonlinear engine)"""
    import os
    import select
    import signal

    r, w = os.pipe()
    pid = os.fork()
    if pid == 0:
        try:
            os.close(r)
            try:
                out = cvc5_check(smt2, timeout_ms)
            except BaseException:  # noqa: BLE001
                out = "unknown"
            os.write(w, out.encode())
        finally:
            os._exit(0)
    os.close(w)
    out = "unknown"
    try:
        ready, _, _ = select.select([r], [], [], timeout_ms / 1000.0 + 2.0)
        if ready:
            data = os.read(r, 64).decode().strip()
            if data in ("sat", "unsat", "unknown"):
                out = data
    finally:
        os.close(r)
        try:
            os.kill(pid, signal.SIGKILL)
        except ProcessLookupError:
            pass
        try:
            os.waitpid(pid, 0)
        except ChildProcessError:
            pass
    return out


def cross_check(res: Result, timeout_ms=10000):
    """Compare a decided z3 verdict with cvc5 on the same SMT-LIB2 text; records agreement statistics."""
    if res.smt2 is None or res.status not in ("sat", "unsat"):
        return None
    CROSS["asked"] += 1
    other = _cvc5_forked(res.smt2, timeout_ms)
    if other == "unknown":
        CROSS["cvc5_unknown"] += 1
    elif other == res.status:
        CROSS["agree"] += 1
    else:
        CROSS["disagree"].append("z3=%s cvc5=%s" % (res.status, other))
    return other


def entails(hyps: Sequence[T], goal: T, **kw) -> Result:
    """unsat  <=>  hyps |= goal (within the axioms)."""
    return solve(list(hyps) + [tm.not_(goal)], **kw)
