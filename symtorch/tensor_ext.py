"""Further torch operations, composed from the element functions and the core handlers of tensor.py.

These are not used by pfhedge at the pinned commit; they exist so that a behaviour-preserving rewrite of the library
(masked_fill instead of where, addcmul, sigmoid/tanh, stacking variants, ...) is executed symbolically instead of ending
in `unsupported`.  Every handler here has cases in conformance/run.py.
"""
import builtins
import math

import numpy as np
import torch

from . import elem as el
from . import terms as tm
from .ctx import EngineUnsupported
from .tensor import (_int_index, HANDLERS, SymTensor, ValuesIndices, _bin, _dtype_of, _map, _NoTF, _reduce, _sizes, _un, _write, handler,
                     payload, wrap)



def _H(name):
    return HANDLERS[name]


# ---- masked writes -------------------------------------------------------------------------


@handler("masked_fill")
def h_masked_fill(a, mask, value):
    r = _map(lambda c, v, x: el.ite(c, v, x), payload(mask), payload(value), payload(a))
    return wrap(r, _dtype_of(a))


@handler("masked_fill_")
def h_masked_fill_(a, mask, value):
    return _write(a, h_masked_fill(a, mask, value)._p)


# ---- fused arithmetic --------------------------------------------------------------------------


@handler("addcmul")
def h_addcmul(a, t1, t2, value=1):
    r = _map(lambda x, y, z, v: el.add(x, el.mul(v, el.mul(y, z))), payload(a), payload(t1), payload(t2), payload(value))
    return wrap(r, _dtype_of(a, t1, t2))


@handler("addcmul_")
def h_addcmul_(a, t1, t2, value=1):
    return _write(a, h_addcmul(a, t1, t2, value)._p)


@handler("addcdiv")
def h_addcdiv(a, t1, t2, value=1):
    r = _map(lambda x, y, z, v: el.add(x, el.mul(v, el.div(y, z))), payload(a), payload(t1), payload(t2), payload(value))
    return wrap(r, _dtype_of(a, t1, t2))


@handler("addcdiv_")
def h_addcdiv_(a, t1, t2, value=1):
    return _write(a, h_addcdiv(a, t1, t2, value)._p)


@handler("expm1")
def h_expm1(a):
    return _un(lambda x: el.sub(el.exp(x), el.lift(1)), a)


@handler("erfc")
def h_erfc(a):
    return _un(lambda x: el.sub(el.lift(1), el.erf(x)), a)


@handler("special_ndtr")
def h_ndtr(a):
    return _un(el.Phi, a)


@handler("special_erf")
def h_special_erf(a):
    return _un(el.erf, a)


@handler("special_erfc")
def h_special_erfc(a):
    return h_erfc(a)


@handler("special_expit", "sigmoid")
def h_sigmoid(a):
    return _un(lambda x: el.div(el.lift(1), el.add(el.lift(1), el.exp(el.neg(x)))), a)


@handler("tanh")
def h_tanh(a):
    # 1 - 2 / (exp(2x) + 1): total on the extended reals (exp(+inf) = inf -> 1, exp(-inf) = 0 -> -1)
    return _un(lambda x: el.sub(el.lift(1), el.div(el.lift(2), el.add(el.exp(el.mul(el.lift(2), x)), el.lift(1)))), a)


@handler("sinh")
def h_sinh(a):
    return _un(lambda x: el.div(el.sub(el.exp(x), el.exp(el.neg(x))), el.lift(2)), a)


@handler("cosh")
def h_cosh(a):
    return _un(lambda x: el.div(el.add(el.exp(x), el.exp(el.neg(x))), el.lift(2)), a)


@handler("softplus")
def h_softplus(a, beta=1.0, threshold=20.0):
    raise EngineUnsupported("softplus (linear above a float threshold)")


@handler("exp2")
def h_exp2(a):
    return _un(lambda x: el.rpow(el.lift(2), x), a)


@handler("log2")
def h_log2(a):
    return _un(lambda x: el.div(el.log(x), el.log(el.lift(2))), a)


@handler("log10")
def h_log10(a):
    return _un(lambda x: el.div(el.log(x), el.log(el.lift(10))), a)


@handler("logaddexp")
def h_logaddexp(a, b):
    return _bin(lambda x, y: el.log(el.add(el.exp(x), el.exp(y))), a, b)


@handler("xlogy")
def h_xlogy(a, b):
    return _bin(lambda x, y: el.ite(el.eq(x, el.lift(0)), el.lift(0), el.mul(x, el.log(y))), a, b)


@handler("hypot")
def h_hypot(a, b):
    return _bin(lambda x, y: el.sqrt(el.add(el.mul(x, x), el.mul(y, y))), a, b)


@handler("sign", "sgn")
def h_sign(a):
    def f(x):
        r = el.ite(el.gt(x, el.lift(0)), el.lift(1), el.ite(el.lt(x, el.lift(0)), el.lift(-1), el.lift(0)))
        return el.ite(el.isnan(x), x, r) if el.xmode() else r

    return _un(f, a)


@handler("heaviside")
def h_heaviside(a, values):
    return _bin(lambda x, v: el.ite(el.gt(x, el.lift(0)), el.lift(1), el.ite(el.lt(x, el.lift(0)), el.lift(0), v)), a, values)


@handler("fmax")
def h_fmax(a, b):
    if el.xmode():
        return _bin(lambda x, y: el.ite(el.isnan(x), y, el.ite(el.isnan(y), x, el.max_(x, y))), a, b)
    return _bin(el.max_, a, b)


@handler("fmin")
def h_fmin(a, b):
    if el.xmode():
        return _bin(lambda x, y: el.ite(el.isnan(x), y, el.ite(el.isnan(y), x, el.min_(x, y))), a, b)
    return _bin(el.min_, a, b)


@handler("logical_xor")
def h_xor(a, b):
    r = _map(lambda x, y: el.or_(el.and_(el.truthy(x), el.not_(el.truthy(y))), el.and_(el.not_(el.truthy(x)), el.truthy(y))), payload(a), payload(b))
    return wrap(r, torch.bool)


@handler("relu_")
def h_relu_(a):
    return _write(a, _H("relu")(a)._p)


@handler("sqrt_")
def h_sqrt_(a):
    return _write(a, _H("sqrt")(a)._p)


@handler("neg_", "negative_")
def h_neg_(a):
    return _write(a, _H("neg")(a)._p)


@handler("abs_", "absolute_")
def h_abs_(a):
    return _write(a, _H("abs")(a)._p)


@handler("square_")
def h_square_(a):
    return _write(a, _H("square")(a)._p)


@handler("pow_")
def h_pow_(a, e):
    return _write(a, _H("pow")(a, e)._p)


@handler("reciprocal_")
def h_reciprocal_(a):
    return _write(a, _H("reciprocal")(a)._p)


@handler("hardtanh")
def h_hardtanh(a, min_val=-1.0, max_val=1.0, inplace=False):
    return _H("clamp")(a, min_val, max_val)


@handler("threshold", "_threshold")
def h_threshold(a, threshold, value, inplace=False):
    return _bin(lambda x, v: el.ite(el.gt(x, el.lift(threshold) if not hasattr(threshold, "op") else threshold), x, v), a, value)


@handler("leaky_relu")
def h_leaky_relu(a, negative_slope=0.01, inplace=False):
    return _bin(lambda x, s: el.ite(el.ge(x, el.lift(0)), x, el.mul(s, x)), a, negative_slope)


# ---- reductions / products -----------------------------------------------------------------------


@handler("aminmax")
def h_aminmax(a, dim=None, keepdim=False):
    class _MinMax(tuple):
        min = property(lambda s: s[0])
        max = property(lambda s: s[1])

    return _MinMax((_reduce(a, el.min_many, dim, keepdim), _reduce(a, el.max_many, dim, keepdim)))


@handler("nansum")
def h_nansum(a, dim=None, keepdim=False, dtype=None):
    if el.xmode():
        raise EngineUnsupported("nansum on extended reals")
    return _H("sum")(a, dim, keepdim)


@handler("nanmean")
def h_nanmean(a, dim=None, keepdim=False, dtype=None):
    if el.xmode():
        raise EngineUnsupported("nanmean on extended reals")
    return _H("mean")(a, dim, keepdim)


@handler("count_nonzero")
def h_count_nonzero(a, dim=None):
    r = _reduce(wrap(_map(lambda x: el.ite(el.truthy(x), el.lift(1), el.lift(0)), payload(a))), el.sum_, dim, False)
    return r


@handler("dot", "inner", "vdot")
def h_dot(a, b):
    pa, pb = payload(a), payload(b)
    if pa.ndim != 1 or pb.ndim != 1 or pa.shape != pb.shape:
        raise EngineUnsupported("dot beyond equal-length vectors")
    return wrap(el.sum_([el.mul(x, y) for x, y in zip(pa, pb)]), _dtype_of(a, b))


@handler("outer", "ger")
def h_outer(a, b):
    pa, pb = payload(a), payload(b)
    return SymTensor(_map(el.mul, pa[:, None], pb[None, :]), _dtype_of(a, b))


@handler("mv")
def h_mv(a, b):
    pa, pb = payload(a), payload(b)
    out = np.empty((pa.shape[0],), dtype=object)
    for i in range(pa.shape[0]):
        out[i] = el.sum_([el.mul(pa[i, k], pb[k]) for k in range(pa.shape[1])])
    return SymTensor(out, _dtype_of(a, b))


@handler("bmm")
def h_bmm(a, b):
    pa, pb = payload(a), payload(b)
    out = np.empty((pa.shape[0], pa.shape[1], pb.shape[2]), dtype=object)
    for n in range(pa.shape[0]):
        for i in range(pa.shape[1]):
            for j in range(pb.shape[2]):
                out[n, i, j] = el.sum_([el.mul(pa[n, i, k], pb[n, k, j]) for k in range(pa.shape[2])])
    return SymTensor(out, _dtype_of(a, b))


@handler("einsum")
def h_einsum(equation, *operands):
    if len(operands) == 1 and isinstance(operands[0], (list, tuple)):
        operands = tuple(operands[0])
    eq = equation.replace(" ", "")
    lhs, rhs = eq.split("->") if "->" in eq else (eq, None)
    ins = lhs.split(",")
    ps = [payload(o) for o in operands]
    if len(ins) != len(ps):
        raise EngineUnsupported("einsum operands do not match the equation")
    # ellipsis: the leading (broadcast) dimensions get fresh upper-case labels, right-aligned
    if "..." in eq:
        nell = builtins.max(p.ndim - len(s_.replace("...", "")) for s_, p in zip(ins, ps) if "..." in s_)
        names = "ABCDEFGHIJKLMNOPQRSTUVWXYZ"[:nell]
        new_ins = []
        for s_, p in zip(ins, ps):
            if "..." in s_:
                k = p.ndim - len(s_.replace("...", ""))
                s_ = s_.replace("...", names[nell - k:])
            new_ins.append(s_)
        ins = new_ins
        if rhs is None:
            raise EngineUnsupported("einsum with ellipsis and implicit output")
        rhs = rhs.replace("...", names)
    if any(len(s_) != p.ndim for s_, p in zip(ins, ps)):
        raise EngineUnsupported("einsum operands do not match the equation")
    size = {}
    for s_, p in zip(ins, ps):
        for ch, n in zip(s_, p.shape):
            if ch.isupper() and n == 1 and size.get(ch, 1) != 1:
                continue  # broadcast dimension of size 1
            if ch.isupper() and size.get(ch) == 1:
                size[ch] = n
                continue
            if size.setdefault(ch, n) != n:
                raise RuntimeError("einsum(): operands do not broadcast with remapped shapes")
    if rhs is None:
        counts = {}
        for s_ in ins:
            for ch in s_:
                counts[ch] = counts.get(ch, 0) + 1
        rhs = "".join(sorted(ch for ch, k in counts.items() if k == 1))
    summed = [ch for ch in size if ch not in rhs]
    out = np.empty(tuple(size[ch] for ch in rhs), dtype=object)
    for oidx in np.ndindex(*out.shape) if rhs else [()]:
        env = dict(zip(rhs, oidx))
        terms = []
        for sidx in np.ndindex(*[size[ch] for ch in summed]) if summed else [()]:
            env.update(zip(summed, sidx))
            prod = None
            for s_, p in zip(ins, ps):
                x = p[tuple(env[ch] if p.shape[i] != 1 else 0 for i, ch in enumerate(s_))]
                prod = x if prod is None else el.mul(prod, x)
            terms.append(prod)
        out[oidx] = el.sum_(terms)
    return wrap(out, _dtype_of(*operands))


# ---- shape / stacking ---------------------------------------------------------------------------


def _atleast(p, nd):
    while p.ndim < nd:
        p = p[None, ...] if nd > 1 and p.ndim >= 1 else p.reshape((1,) * (nd - p.ndim) + p.shape)
    return p


@handler("hstack")
def h_hstack(ts):
    ps = [_atleast(payload(t), 1) for t in ts]
    return SymTensor(np.concatenate(ps, axis=0 if ps[0].ndim == 1 else 1), _dtype_of(*ts))


@handler("vstack", "row_stack")
def h_vstack(ts):
    ps = [_atleast(payload(t), 2) for t in ts]
    return SymTensor(np.concatenate(ps, axis=0), _dtype_of(*ts))


@handler("column_stack")
def h_column_stack(ts):
    ps = []
    for t in ts:
        p = payload(t)
        p = p.reshape(-1, 1) if p.ndim <= 1 else p
        ps.append(p)
    return SymTensor(np.concatenate(ps, axis=1), _dtype_of(*ts))


@handler("narrow")
def h_narrow(a, dim, start, length):
    idx = [slice(None)] * payload(a).ndim
    idx[dim] = slice(int(start), int(start) + int(length))
    return _H("__getitem__")(a, tuple(idx))


@handler("select")
def h_select(a, dim, index):
    idx = [slice(None)] * payload(a).ndim
    idx[dim] = int(index)
    return _H("__getitem__")(a, tuple(idx))


@handler("roll")
def h_roll(a, shifts, dims=None):
    return SymTensor(np.roll(payload(a), shifts, axis=dims).copy(), a.dtype)


@handler("tile")
def h_tile(a, *dims):
    return SymTensor(np.tile(payload(a), _sizes(dims)), a.dtype)


@handler("repeat_interleave")
def h_repeat_interleave(a, repeats, dim=None, output_size=None):
    if isinstance(repeats, torch.Tensor):
        with _NoTF():
            repeats = repeats.numpy()
    p = payload(a)
    return SymTensor(np.repeat(p.reshape(-1) if dim is None else p, repeats, axis=0 if dim is None else dim), a.dtype)


@handler("unflatten")
def h_unflatten(a, dim, sizes):
    p = payload(a)
    d = dim % p.ndim
    return _H("reshape")(a, tuple(p.shape[:d]) + tuple(sizes) + tuple(p.shape[d + 1:]))


@handler("take_along_dim")
def h_take_along_dim(a, indices, dim=None):
    idx = _int_index(indices)
    p = payload(a)
    if dim is None:
        return SymTensor(p.reshape(-1)[idx.reshape(-1)], a.dtype)
    return SymTensor(np.take_along_axis(p, idx, axis=dim), a.dtype)


@handler("tril")
def h_tril(a, diagonal=0):
    p = payload(a).copy()
    for idx in np.ndindex(*p.shape):
        if idx[-1] - idx[-2] > diagonal:
            p[idx] = el.lift(0)
    return SymTensor(p, a.dtype)


@handler("triu")
def h_triu(a, diagonal=0):
    p = payload(a).copy()
    for idx in np.ndindex(*p.shape):
        if idx[-1] - idx[-2] < diagonal:
            p[idx] = el.lift(0)
    return SymTensor(p, a.dtype)


@handler("diagonal")
def h_diagonal(a, offset=0, dim1=0, dim2=1):
    return SymTensor(np.diagonal(payload(a), offset=offset, axis1=dim1, axis2=dim2).copy(), a.dtype)


@handler("trapezoid", "trapz")
def h_trapezoid(y, x=None, dx=None, dim=-1):
    if x is not None and not isinstance(x, (int, float)):
        raise EngineUnsupported("trapezoid with sample points")
    step = el.lift(1 if dx is None and x is None else (x if x is not None else dx))
    return _reduce(y, lambda xs: el.mul(step, el.sum_([el.div(el.add(p_, q_), el.lift(2)) for p_, q_ in zip(xs[:-1], xs[1:])])) if len(xs) > 1 else el.lift(0),
                   dim, False)
