"""Regenerates MANIFEST.json from the table below (kept in one place so it is always valid)."""
import json, os
ROOT = os.path.dirname(os.path.dirname(os.path.abspath(__file__)))
BASELINE = "cd /repo && /venv/bin/python -m pytest -ra -q -p no:cacheprovider --timeout=900 --continue-on-collection-errors"

CLAIMED = {}   # id -> dict(text, note, design_ref, technique)
NA = {}        # id -> reason

def claim(pid, text, note, ref, technique):
    CLAIMED[pid] = dict(text=text, note=note, ref=ref, technique=technique)

exec(open(os.path.join(ROOT, "tools", "claims.py")).read())

props = [json.loads(l)["id"] for l in open(os.path.join(ROOT, "properties.jsonl"))]
checks = []
for pid in props:
    if pid in CLAIMED:
        c = CLAIMED[pid]
        checks.append({
            "property_id": pid,
            "quick_cmd": "bin/vcheck %s --tier quick" % pid,
            "thorough_cmd": "bin/vcheck %s --tier thorough" % pid,
            "evidence_file": "evidence/%s.json" % pid,
            "replay_cmd_template": "bin/vcheck %s --replay {path}" % pid,
            "engine": "symtorch",
            "level_claimed": {"category": "model_checking", "text": c["text"], "design_ref": c["ref"]},
            "level_note": c["note"],
            "technique": c["technique"],
        })
na = [{"property_id": p, "reason": NA.get(p, "no check built yet (work in progress): not claimed")} for p in props if p not in CLAIMED]
m = {
    "version": 1,
    "setup_cmd": "bin/bootstrap.sh",
    "hooks": {"guard": "PFHEDGE_VERIF", "enable": "no source hooks are needed: the checks execute /repo's current working tree under a symbolic tensor type through torch's own __torch_function__ dispatch; the guard name is reserved and unused",
              "baseline_off_cmd": BASELINE, "source_commits": [], "add_only": True},
    "engines": [{"name": "symtorch", "path": "symtorch/", "serves_properties": sorted(CLAIMED),
                 "kind_free_text": "symbolic execution of the real pfhedge/torch code on SymTensor (torch.Tensor wrapper subclass carrying solver terms), path exploration by replay, special functions Ackermannised with instantiated axioms, z3 decides each obligation, counterexamples replayed on real float64 torch"}],
    "checks": checks,
    "not_applicable": na,
    "notes": "exit codes: 0 held on everything explored (obligations without a verdict -- solver timeout, a model of the abstraction that does not replay on the real code, wall-clock budget -- are printed as UNDECIDED lines and counted in the evidence); 1 VIOLATION (replayed on the real code) not listed in known_findings.json; 3 harness error (exception in harness/engine code, torch operation without a handler, exploration bound, conformance failure, solver disagreement, a negative control that was proved). tools/regress_seeds.sh and tools/regress_refactors.sh replay the filed seeded changes (must be caught) and behaviour-preserving refactorings (must stay quiet) in scratch worktrees. See DESIGN.md sections 0 and 2.10.",
}
json.dump(m, open(os.path.join(ROOT, "MANIFEST.json"), "w"), indent=1)
print("claimed:", sorted(CLAIMED), "not claimed:", [x["property_id"] for x in na])
