"""Handler conformance: every modelled torch operation is executed on concrete rational inputs through the
SymTensor handler table and through real torch (float64), on random shapes/arguments including broadcasting,
negative dims, keepdim and views; results must agree.  View/copy (aliasing) behaviour is checked with a
write-through test.  Validates the translator (the trusted model of torch) -- after Serval's practice of
running existing tests through the symbolic interpreter, the literal inputs of the repo's own functional
tests are pushed through both as well.

usage: python -m conformance.run [--smoke]      exit 0 = all agree; writes conformance/result.json
"""
import json
import math
import os
import sys
import time
from fractions import Fraction

ROOT = os.path.dirname(os.path.dirname(os.path.abspath(__file__)))
sys.path.insert(0, ROOT)

import numpy as np  # noqa: E402
import torch  # noqa: E402

from symtorch import ctx as cx, elem as el, facades, terms as tm  # noqa: E402
from symtorch import tensor as st  # noqa: E402

torch.set_default_dtype(torch.float64)


def to_sym(t):
    return st.SymTensor(st.payload(t), t.dtype) if isinstance(t, torch.Tensor) else t


def to_float_array(x):
    if isinstance(x, st.SymTensor):
        flat = x._p.reshape(-1)
        out = np.empty(flat.shape, dtype=np.float64)
        for i, e in enumerate(flat):
            if isinstance(e, el.XReal):
                if tm.evalf(e.nan):
                    out[i] = float("nan")
                elif tm.evalf(e.pinf):
                    out[i] = float("inf")
                elif tm.evalf(e.ninf):
                    out[i] = -float("inf")
                else:
                    out[i] = tm.evalf(e.val)
            else:
                v = tm.evalf(e)
                out[i] = float(v)
        return out.reshape(x._p.shape)
    if isinstance(x, torch.Tensor):
        return x.detach().to(torch.float64).numpy()
    if isinstance(x, (tuple, list)):
        return [to_float_array(y) for y in x]
    return np.asarray(float(x))


def rnd(rng, *shape, lo=-2.0, hi=2.0, pos=False):
    a = rng.integers(-32, 33, size=shape) / 16.0
    a = a * (hi - lo) / 4.0
    if pos:
        a = np.abs(a) + 0.25
    return torch.tensor(a, dtype=torch.float64)


SPECS = []


def spec(name, n_in=1, pos=False, shapes=None, xmode=False):
    def deco(f):
        SPECS.append((name, f, n_in, pos, shapes, xmode))
        return f

    return deco


SH1 = [((3,),), ((2, 3),), ((2, 1, 3),), ((),)]
SH2 = [((2, 3), (2, 3)), ((2, 3), (3,)), ((2, 1), (1, 3)), ((3,), ())]

for _n, _f in [("add", lambda a, b: a + b), ("sub", lambda a, b: a - b), ("mul", lambda a, b: a * b), ("maximum", torch.maximum),
               ("minimum", torch.minimum), ("lt", lambda a, b: (a < b).to(a)), ("le", lambda a, b: (a <= b).to(a)),
               ("ge", lambda a, b: (a >= b).to(a)), ("eq", lambda a, b: (a == b).to(a)), ("ne", lambda a, b: (a != b).to(a)),
               ("where", lambda a, b: torch.where(a > b, a, b * 2)), ("where_method", lambda a, b: a.where(a > 0, b)),
               ("lerp", lambda a, b: torch.lerp(a, b, 0.25)), ("rsub", lambda a, b: 1.5 - a + b), ("radd_scalar", lambda a, b: 2 + a * 3 - b / 4)]:
    spec(_n, 2, shapes=SH2)(_f)
for _n, _f in [("masked_fill", lambda a, b: a.masked_fill(a > b, 0.25)), ("masked_fill_tensor", lambda a, b: torch.masked_fill(a, b > 0, torch.tensor(-1.5, dtype=a.dtype))),
               ("addcmul", lambda a, b: torch.addcmul(a, a, b, value=0.5)), ("logaddexp", torch.logaddexp), ("hypot", torch.hypot), ("fmax", torch.fmax), ("fmin", torch.fmin),
               ("heaviside", lambda a, b: torch.heaviside(a, b * 0 + 0.5)), ("logical_xor", lambda a, b: torch.logical_xor(a > 0, b > 0).to(a)),
               ("leaky_relu", lambda a, b: torch.nn.functional.leaky_relu(a - b, 0.1)), ("threshold", lambda a, b: torch.nn.functional.threshold(a + b, 0.1, -2.0))]:
    spec(_n, 2, shapes=SH2)(_f)
spec("addcdiv", 2, pos=True, shapes=SH2)(lambda a, b: torch.addcdiv(a, a, b, value=2.0))
spec("xlogy", 2, pos=True, shapes=SH2)(lambda a, b: torch.xlogy(a - a.min(), b))
for _n, _f in [("expm1", torch.expm1), ("erfc", torch.erfc), ("ndtr", torch.special.ndtr), ("special_erf", torch.special.erf), ("sigmoid", torch.sigmoid),
               ("tanh", torch.tanh), ("sinh", torch.sinh), ("cosh", torch.cosh), ("exp2", torch.exp2), ("sign", torch.sign), ("sgn", lambda a: a.sgn()),
               ("relu_", lambda a: (a * 1.0).relu_()), ("masked_fill_", lambda a: (a * 1.0).masked_fill_(a < 0.1, 2.0)),
               ("addcmul_", lambda a: (a * 1.0).addcmul_(a, a + 1, value=0.5)), ("addcdiv_", lambda a: (a * 1.0).addcdiv_(a, a * a + 1)), ("neg_", lambda a: (a * 1.0).neg_()), ("abs_", lambda a: (a * 1.0).abs_()), ("square_", lambda a: (a * 1.0).square_()),
               ("hardtanh", lambda a: torch.nn.functional.hardtanh(a, -0.5, 0.5)), ("count_nonzero", lambda a: torch.count_nonzero(a > 0).to(a)),
               ("aminmax", lambda a: sum(torch.aminmax(a))), ("nansum", lambda a: a.nansum()), ("nanmean", lambda a: a.nanmean())]:
    spec(_n, 1, shapes=SH1)(_f)
for _n, _f in [("log2", torch.log2), ("log10", torch.log10), ("sqrt_", lambda a: (a * 1.0).sqrt_()), ("reciprocal_", lambda a: (a * 1.0).reciprocal_()),
               ("pow_", lambda a: (a * 1.0).pow_(1.5))]:
    spec(_n, 1, pos=True, shapes=SH1)(_f)
spec("div", 2, pos=True, shapes=SH2)(lambda a, b: a / b)
spec("pow_tensor", 2, pos=True, shapes=SH2)(lambda a, b: a.pow(b))
for _n, _f in [("neg", lambda a: -a), ("abs", torch.abs), ("square", lambda a: a.square()), ("relu", torch.relu), ("exp", torch.exp),
               ("erf", torch.erf), ("cos", torch.cos), ("sin", torch.sin), ("pow2", lambda a: a.pow(2)), ("pow3", lambda a: a ** 3),
               ("clamp", lambda a: a.clamp(min=-0.5, max=0.75)), ("clamp_min", lambda a: a.clamp(min=0.1)), ("clamp_inverted", lambda a: a.clamp(min=1.0, max=-1.0)),
               ("sum", lambda a: a.sum()), ("mean", lambda a: a.mean()), ("amax", lambda a: a.amax()), ("amin", lambda a: a.amin()),
               ("max_all", lambda a: a.max()), ("min_all", lambda a: a.min()), ("zeros_like", torch.zeros_like), ("ones_like", torch.ones_like),
               ("full_like", lambda a: torch.full_like(a, 0.3)), ("new_zeros", lambda a: a.new_zeros((2, 2))), ("flatten", lambda a: a.flatten()),
               ("clone", lambda a: a.clone()), ("to_self", lambda a: a.to(a)), ("bool_to_float", lambda a: (a > 0).to(a.dtype)),
               ("logical", lambda a: ((a > 0).logical_and(a < 1).logical_or(a == -1)).to(a)), ("all", lambda a: (a > -9).all().to(a)),
               ("any", lambda a: (a > 1).any().to(a))]:
    spec(_n, 1, shapes=SH1)(_f)
for _n, _f in [("log", torch.log), ("sqrt", torch.sqrt), ("pow_half", lambda a: a.pow(0.5)), ("pow_third", lambda a: a.pow(1 / 3)),
               ("reciprocal", lambda a: 1 / a), ("rpow", lambda a: 2.0 ** a), ("log_exp", lambda a: a.log().exp())]:
    spec(_n, 1, pos=True, shapes=SH1)(_f)
D2 = [((2, 3),), ((3, 2, 2),)]
for _n, _f in [("sum_dim", lambda a: a.sum(dim=-1)), ("sum_dims", lambda a: a.sum(dim=(0, -1))), ("sum_keepdim", lambda a: a.sum(0, keepdim=True)),
               ("mean_dim", lambda a: a.mean(dim=0)), ("mean_keepdim", lambda a: a.mean(dim=-1, keepdim=True)), ("prod", lambda a: a.prod(dim=-1)),
               ("amax_dim", lambda a: a.amax(dim=0)), ("amin_keepdim", lambda a: torch.amin(a, dim=-1, keepdim=True)),
               ("max_dim", lambda a: a.max(dim=-1).values), ("min_dim_keepdim", lambda a: a.min(-1, keepdim=True).values),
               ("logsumexp", lambda a: torch.logsumexp(a, dim=0)), ("cumsum", lambda a: a.cumsum(-1)), ("cumsum0", lambda a: a.cumsum(0)),
               ("cumprod", lambda a: a.cumprod(dim=-1)), ("cummax", lambda a: a.cummax(-1).values), ("cummin", lambda a: a.cummin(dim=0).values),
               ("diff", lambda a: a.diff(dim=-1)), ("topk", lambda a: a.topk(2, dim=-1).values), ("topk_smallest", lambda a: a.topk(1, dim=0, largest=False).values),
               ("sort", lambda a: a.sort(dim=-1).values), ("kthvalue", lambda a: a.kthvalue(2, dim=-1).values),
               ("kthvalue_keepdim", lambda a: a.kthvalue(1, dim=0, keepdim=True).values), ("sort_desc", lambda a: a.sort(dim=0, descending=True).values),
               ("quantile", lambda a: a.quantile(0.3, dim=-1)), ("quantile0", lambda a: a.quantile(0.0, dim=0)), ("quantile1", lambda a: a.quantile(1.0, dim=-1)),
               ("quantile_mid", lambda a: a.quantile(0.5, dim=0)), ("var", lambda a: a.var(dim=-1)), ("std", lambda a: a.std(dim=0)),
               ("getitem_last", lambda a: a[..., -1]), ("getitem_list", lambda a: a[..., [0]]), ("getitem_slice", lambda a: a[..., :-1]),
               ("getitem_double_ellipsis", lambda a: a[..., ...]), ("getitem_none", lambda a: a[None, ..., None]), ("getitem_int_slice", lambda a: a[0, 1:]),
               ("unsqueeze", lambda a: a.unsqueeze(-1)), ("unsqueeze0", lambda a: a.unsqueeze(0)), ("squeeze", lambda a: a.unsqueeze(1).squeeze(1)),
               ("transpose", lambda a: a.transpose(-1, -2)), ("expand", lambda a: a.unsqueeze(0).expand(2, *a.shape)), ("expand_m1", lambda a: a[..., :1].expand(*a.shape[:-1], -1)),
               ("flip", lambda a: a.flip(-1)), ("cat", lambda a: torch.cat([a, a * 2], dim=-1)), ("cat0", lambda a: torch.cat((a, -a), dim=0)),
               ("stack", lambda a: torch.stack([a, a + 1], dim=1)), ("view", lambda a: a.reshape(-1)), ("unbind", lambda a: a.unbind(0)[1]),
               ("pad", lambda a: torch.nn.functional.pad(a, (0, 1))), ("broadcast_tensors", lambda a: torch.broadcast_tensors(a, a[..., :1])[1]),
               ("setitem_col", lambda a: _set(a.clone(), (slice(None), 0), 0.5)), ("setitem_last", lambda a: _set2(a.clone())),
               ("inplace_sub", lambda a: _isub(a.clone())), ("mse", lambda a: torch.nn.functional.mse_loss(a, a * 0.5)), ("l1", lambda a: torch.nn.functional.l1_loss(a, a * 0.5)),
               ("linear", lambda a: torch.nn.functional.linear(a, torch.tensor([[0.5] * a.shape[-1], [0.25] * a.shape[-1]]), torch.tensor([0.1, -0.2]))),
               ("median", lambda a: a.median()),
               ("aminmax_dim", lambda a: torch.aminmax(a, dim=-1).max - a.aminmax(dim=-1, keepdim=False).min), ("hstack", lambda a: torch.hstack([a, a + 1])),
               ("vstack", lambda a: torch.vstack([a, -a])), ("column_stack", lambda a: torch.column_stack([a[..., 0].reshape(-1), a[..., 1].reshape(-1)])),
               ("narrow", lambda a: a.narrow(-1, 0, 1)), ("select", lambda a: a.select(-1, 1)), ("roll", lambda a: a.roll(1, -1)), ("tile", lambda a: a.tile((2, 1, 1))[0:3]),
               ("repeat_interleave", lambda a: a.repeat_interleave(2, dim=-1)), ("unflatten", lambda a: a.reshape(-1).unflatten(0, (-1, 2)) if a.numel() % 2 == 0 else a),
               ("take_along_dim", lambda a: torch.take_along_dim(a, torch.zeros(a.shape[:-1] + (1,), dtype=torch.long), dim=-1)),
               ("tril", lambda a: a.tril()), ("triu", lambda a: torch.triu(a, 1)), ("diagonal", lambda a: a.diagonal(dim1=-2, dim2=-1)),
               ("einsum_ij_j", lambda a: torch.einsum("...j,...j->...", a, a) if False else torch.einsum("ij,ij->i", a.reshape(-1, a.shape[-1]), a.reshape(-1, a.shape[-1]))),
               ("einsum_ellipsis", lambda a: torch.einsum("...i,...i->...", a, a * 2)), ("einsum_outer", lambda a: torch.einsum("i,j->ij", a.reshape(-1)[:2], a.reshape(-1)[:3])), ("einsum_implicit", lambda a: torch.einsum("ij,jk", a.reshape(-1, a.shape[-1]), a.reshape(-1, a.shape[-1]).T)),
               ("dot", lambda a: torch.dot(a.reshape(-1), a.reshape(-1) + 1)), ("outer", lambda a: torch.outer(a.reshape(-1)[:2], a.reshape(-1)[:3])),
               ("mv", lambda a: torch.mv(a.reshape(-1, a.shape[-1]), a.reshape(-1)[: a.shape[-1]])), ("bmm", lambda a: torch.bmm(a.reshape(1, -1, a.shape[-1]), a.reshape(1, -1, a.shape[-1]).transpose(1, 2))),
               ("trapezoid", lambda a: torch.trapezoid(a, dx=0.5, dim=-1))]:
    spec(_n, 1, shapes=D2)(_f)
spec("conv1d", 1, shapes=[((2, 1, 4),)])(lambda a: torch.nn.functional.conv1d(torch.tensor([[[1.0, 0.5, 0.25]]]), a, padding=3))


def _set(a, idx, v):
    a[idx] = v
    return a


def _set2(a):
    a[..., -1] = a[..., -2]
    return a


def _isub(a):
    b = a[..., 0]
    a -= 1.5
    a[..., 0].add_(0.25)
    return a + b.sum()


# extended-real semantics (IEEE special values)
for _n, _f in [("x_div0", lambda a: a / (a * 0)), ("x_0div0", lambda a: (a * 0) / (a * 0)), ("x_inf_minus_inf", lambda a: (a / (a * 0)).abs() - (a / (a * 0)).abs()),
               ("x_0_times_inf", lambda a: (a * 0) * (1 / (a * 0)).abs()), ("x_sqrt_neg", lambda a: (a - 5).sqrt()), ("x_log0", lambda a: (a * 0).log()),
               ("x_exp_neginf", lambda a: (-(1 / (a * 0)).abs()).exp()), ("x_erf_inf", lambda a: torch.erf(1 / (a * 0))), ("x_where_masks_nan", lambda a: torch.where(a > 9, (a - 5).sqrt(), a)),
               ("x_cmp_nan", lambda a: ((a - 5).sqrt() >= 0).to(a)), ("x_max_nan", lambda a: torch.maximum((a - 5).sqrt(), a)), ("x_clamp_inf", lambda a: (1 / (a * 0)).clamp(max=3.0)),
               ("x_pow_third_neg", lambda a: (a - 5).pow(1 / 3)), ("x_isnan", lambda a: (a - 5).sqrt().isnan().to(a))]:
    spec(_n, 1, pos=True, shapes=[((3,),)], xmode=True)(_f)


ALIAS = [
    ("getitem_slice is a view", lambda a: a[:, 1:], True), ("getitem_ellipsis is a view", lambda a: a[:, ...], True), ("getitem_list is a copy", lambda a: a[:, [1]], False),
    ("unsqueeze is a view", lambda a: a.unsqueeze(-1), True), ("transpose is a view", lambda a: a.transpose(0, 1), True), ("clone is a copy", lambda a: a.clone(), False),
    ("arithmetic is a copy", lambda a: a + 0, False), ("reshape of contiguous is a view", lambda a: a.reshape(-1), True), ("squeeze is a view", lambda a: a.unsqueeze(0).squeeze(0), True),
    ("cat is a copy", lambda a: torch.cat([a], dim=0), False), ("detach shares nothing in the model but values", lambda a: a.clone(), False),
    ("slice then unsqueeze is a view", lambda a: a[:, ...].unsqueeze(-1), True), ("flatten of contiguous is a view", lambda a: a.flatten(), True),
]


def run(smoke=False):
    rng = np.random.default_rng(int(os.environ.get("VERIF_SEED", "0") or 0) + 7)
    reps = 1 if smoke else 4
    fails, n = [], 0
    t0 = time.time()
    with facades.patched():
        for name, f, n_in, pos, shapes, xmode in SPECS:
            for shp in shapes:
                for _ in range(reps):
                    c = cx.Ctx(xmode=xmode)
                    cx.CUR = c
                    try:
                        ins = [rnd(rng, *s, pos=pos) for s in (shp if n_in > 1 else shp[:1])]
                        with facades.real_torch():
                            want = to_float_array(f(*[i.clone() for i in ins]))
                        got = to_float_array(f(*[to_sym(i.clone()) for i in ins]))
                        n += 1
                        ok = np.shape(got) == np.shape(want) and np.allclose(got, want, rtol=1e-9, atol=1e-12, equal_nan=True)
                        if not ok:
                            fails.append("%s %s: got %s want %s" % (name, shp, np.array(got).tolist(), np.array(want).tolist()))
                    except Exception as e:  # noqa: BLE001
                        fails.append("%s %s: %r" % (name, shp, e))
                    finally:
                        cx.CUR = None
        for name, f, is_view in ALIAS:
            c = cx.Ctx()
            cx.CUR = c
            try:
                a = rnd(rng, 2, 3)
                sa = to_sym(a.clone())
                ra = a.clone()
                with facades.real_torch():
                    rv = f(ra)
                    rv.add_(1.0)
                sv = f(sa)
                sv.add_(1.0)
                n += 1
                changed_real = not torch.equal(ra, a)
                changed_sym = not np.allclose(to_float_array(sa), a.numpy())
                if changed_real != changed_sym or changed_real != is_view:
                    fails.append("alias %s: real view=%s model view=%s expected=%s" % (name, changed_real, changed_sym, is_view))
                elif not np.allclose(to_float_array(sa), ra.numpy()):
                    fails.append("alias %s: write-through values differ" % name)
            except Exception as e:  # noqa: BLE001
                fails.append("alias %s: %r" % (name, e))
            finally:
                cx.CUR = None
        # the repo's own literal test inputs through both
        n2, f2 = repo_literals()
        n += n2
        fails += f2
    # soundness of the axiom instances the solver is given
    from conformance import axioms

    n_ax, f_ax = axioms.run(n_rounds=8 if smoke else 60)
    fails += ["axiom instance false on real functions: " + x for x in f_ax]
    from conformance import normalform

    n_nf, f_nf = normalform.run(n=150 if smoke else 1500)
    fails += f_nf
    with facades.patched():
        pass
    res = {"cases": n, "axiom_instances_evaluated": n_ax, "normal_form_evaluations": n_nf, "failures": fails, "specs": len(SPECS), "alias_tests": len(ALIAS), "seconds": round(time.time() - t0, 2), "smoke": smoke,
           "torch": torch.__version__}
    outdir = os.environ.get("VERIF_EVIDENCE_DIR") or os.path.join(ROOT, "conformance")
    os.makedirs(outdir, exist_ok=True)
    with open(os.path.join(outdir, "result.json" if outdir.endswith("conformance") else "conformance_result.json"), "w") as fh:
        json.dump(res, fh, indent=1)
    print("conformance: %d handler cases, %d axiom instances, %d term evaluations, %d failures (%.1fs)" % (n, n_ax, n_nf, len(fails), res["seconds"]))
    for x in fails[:20]:
        print("  FAIL", x[:300])
    return 0 if not fails else 1


def repo_literals():
    """literal inputs of tests/nn/test_functional.py style: the documented examples of the functional forms"""
    from pfhedge.nn import functional as F

    fails, n = [], 0
    x = torch.tensor([[1.0, 1.1, 0.9, 1.2], [1.0, 0.8, 0.7, 0.95]])
    calls = [
        ("european_payoff", lambda t: F.european_payoff(t, strike=1.0)), ("lookback_payoff", lambda t: F.lookback_payoff(t, strike=1.05)),
        ("american_binary_payoff", lambda t: F.american_binary_payoff(t, strike=1.1)), ("european_binary_payoff put", lambda t: F.european_binary_payoff(t, call=False, strike=0.95)),
        ("forward_start", lambda t: F.european_forward_start_payoff(t, strike=1.0, start_index=1)), ("realized_variance", lambda t: F.realized_variance(t, dt=0.25)),
        ("expected_shortfall", lambda t: F.expected_shortfall(-torch.arange(10.0).to(t) + t.sum() * 0, 0.3)),
        ("value_at_risk", lambda t: F.value_at_risk(-torch.arange(10.0).to(t) + t.sum() * 0, 0.3)),
        ("entropic", lambda t: F.entropic_risk_measure(t.reshape(-1), 1.5)), ("topp", lambda t: F.topp(torch.arange(1.0, 6.0).to(t) + t.sum() * 0, 3 / 5).values),
        ("leaky_clamp", lambda t: F.leaky_clamp(t, torch.tensor(0.9), torch.tensor(1.0), clamped_slope=0.1)), ("clamp inverted", lambda t: F.clamp(t, torch.tensor(1.1), torch.tensor(0.9))),
        ("pl", lambda t: F.pl(t.unsqueeze(1), (t * 0.5).unsqueeze(1), cost=[0.25], payoff=t[:, -1] * 0.1)),
        ("bs_european_price", lambda t: F.bs_european_price(torch.tensor([-0.1, 0.0, 0.1]).to(t) + t.sum() * 0, torch.tensor(1.0), torch.tensor(0.2))),
        ("bs_european_delta", lambda t: F.bs_european_delta(torch.tensor([-0.1, 0.0, 0.1]).to(t) + t.sum() * 0, torch.tensor(1.0), torch.tensor(0.2))),
        ("bs_european_gamma", lambda t: F.bs_european_gamma(torch.tensor([-0.1, 0.0, 0.1]).to(t) + t.sum() * 0, torch.tensor(1.0), torch.tensor(0.2))),
        ("bs_european_binary_price", lambda t: F.bs_european_binary_price(t[0].log(), torch.tensor(0.5), torch.tensor(0.3))),
        ("bs_american_binary_price", lambda t: F.bs_american_binary_price(t[1].log(), t[1].log().cummax(0).values, torch.tensor(0.5), torch.tensor(0.3))),
        ("bs_lookback_price", lambda t: F.bs_lookback_price(t[0].log(), t[0].log().cummax(0).values, torch.tensor(0.5), torch.tensor(0.3), 1.03)),
        ("ncdf/npdf/d1/d2", lambda t: F.ncdf(F.d1(t.log(), torch.tensor(0.3), torch.tensor(0.2))) + F.npdf(F.d2(t.log(), torch.tensor(0.3), torch.tensor(0.2)))),
        ("ww_width", lambda t: F.ww_width(t, t * 2, 0.01, 1.5)), ("svi", lambda t: F.svi_variance(t.log(), 0.04, 0.4, -0.4, 0.1, 0.2)),
        ("bilerp", lambda t: F.bilerp(t, t * 2, t * 3, t * 4, 0.3, 0.6)), ("box_muller", lambda t: F.box_muller(t / 2, t / 3)[0]),
    ]
    for name, f in calls:
        c = cx.Ctx()
        cx.CUR = c
        try:
            with facades.real_torch():
                want = to_float_array(f(x.clone()))
            got = to_float_array(f(to_sym(x.clone())))
            n += 1
            if not (np.shape(got) == np.shape(want) and np.allclose(got, want, rtol=1e-7, atol=1e-10, equal_nan=True)):
                fails.append("repo %s: got %s want %s" % (name, np.array(got).tolist(), np.array(want).tolist()))
        except Exception as e:  # noqa: BLE001
            fails.append("repo %s: %r" % (name, e))
        finally:
            cx.CUR = None
    return n, fails


if __name__ == "__main__":
    sys.exit(run(smoke="--smoke" in sys.argv))
