#!/bin/bash
# try_refactor.sh <patch.diff> <Cxx> [<Cyy> ...]: apply a behaviour-preserving refactoring to /repo, run the quick checks of the
# given properties (expected: exit 0, no VIOLATION), undo it.
PATCH=$1; shift
cd /repo && git diff --quiet || { echo "repo dirty"; exit 9; }
git -C /repo apply "$PATCH" || { echo "patch does not apply"; exit 8; }
cd /verif
for P in "$@"; do
  out=$(timeout 3000 bin/vcheck $P --tier quick 2>&1); rc=$?
  echo "$(basename $(dirname $PATCH)) $P rc=$rc | $(echo "$out" | grep -E "^C[0-9]+ tier" | cut -c1-130)"
  echo "$out" | grep -E "^(VIOLATION|HARNESS-ERROR|UNDECIDED)" | cut -c1-260 | head -6
done
git -C /repo checkout -- .
git -C /repo status --short | head -3
