"""Model of torch autograd on SymTensors (symbolic differentiation of the term DAG).

* requires_grad_() turns each element of a tensor into a fresh *leaf variable* with a recorded
  definition; torch.autograd.grad / backward differentiate the element terms w.r.t. those.
* detach(), .data and results computed while grad is disabled become *stop-gradient* variables:
  same value (definition recorded), but invisible to D_autograd.  D_true substitutes every
  definition first.  C14 asserts D_autograd == D_true.
"""
from __future__ import annotations

import numpy as np
import torch

from . import ctx as cx
from . import elem as el
from . import terms as tm
from .ctx import EngineUnsupported
from .terms import T


def _tensor_mod():
    from . import tensor

    return tensor


def handler(*names):
    def deco(f):
        t = _tensor_mod()
        for n in names:
            t.HANDLERS[n] = f
        return f

    return deco


def _ctx():
    if cx.CUR is None:
        raise EngineUnsupported("autograd outside a run")
    return cx.CUR


def make_leaf(t, base="g"):
    """Replace the payload of t by fresh leaf variables (definitions recorded)."""
    c = _ctx()
    p = t._p
    if not p.flags.writeable:
        p = p.copy()
        t._p = p
    flat = p.reshape(-1)
    leafvars = c.env.setdefault("leafvars", set())
    for i in range(flat.size):
        x = flat[i]
        if isinstance(x, el.XReal):
            raise EngineUnsupported("autograd in extended-real mode")
        if x.op == "var" and x in leafvars:
            continue
        v = c.fresh(base)
        c.defs[v] = x
        leafvars.add(v)
        flat[i] = v
    t._rg = True
    t._leaf = True
    if not any(t is x for x in c.grad_leaves):
        c.grad_leaves.append(t)


def releaf(t):
    """After an in-place update of a leaf that requires grad (optimizer step)."""
    make_leaf(t, "p")


def cut_inplace(t):
    """Make every element of t a stop-gradient variable (value kept through its definition)."""
    c = _ctx()
    leafvars = c.env.get("leafvars") or set()
    if not leafvars:
        return
    p = t._p
    if not p.flags.writeable:
        p = p.copy()
        t._p = p
    flat = p.reshape(-1)
    for i in range(flat.size):
        x = flat[i]
        if not isinstance(x, T) or x.sort != "R":
            continue
        fv = tm.free_vars(x)
        if not (fv & leafvars) and not (fv & c.stopgrad_dep()):
            continue
        v = c.fresh("sg")
        c.defs[v] = x
        c.stopgrad.add(v)
        flat[i] = v
    t._rg = False


def _stopgrad_dep(self):
    # stop-grad vars whose definition (transitively) depends on a leaf: all of them, by construction
    return self.stopgrad


cx.Ctx.stopgrad_dep = _stopgrad_dep


def resolve(term: T, c=None, keep=()) -> T:
    """Substitute leaf/stop-gradient definitions (transitively) except the variables in keep."""
    c = c or _ctx()
    keep = set(keep)
    memo = {}
    mapping = {}

    def full(v):
        if v in mapping:
            return mapping[v]
        d = c.defs[v]
        mapping[v] = v  # cycle guard
        inner = [w for w in tm.free_vars(d) if w in c.defs and w not in keep]
        for w in inner:
            full(w)
        r = tm.subst(d, {w: mapping[w] for w in inner}) if inner else d
        mapping[v] = r
        return r

    todo = [v for v in tm.free_vars(term) if v in c.defs and v not in keep]
    if not todo:
        return term
    for v in todo:
        full(v)
    return tm.subst(term, {v: mapping[v] for v in todo}, memo)


def d_autograd(out: T, wrt: T, c=None) -> T:
    """Derivative as autograd computes it: sees through grad leaves' definitions (they are graph
    nodes only if they themselves were produced from other leaves *before* requires_grad_, which
    torch does not differentiate through either) -- i.e. leaves and stop-gradient variables are
    constants, except `wrt`."""
    return tm.D(out, wrt)


@handler("requires_grad_")
def h_requires_grad_(a, requires_grad=True):
    if not requires_grad:
        a._rg = False
        return a
    if a._rg:
        return a
    make_leaf(a)
    _ctx().env["track_grad"] = True
    return a


@handler("__get__:requires_grad")
def h_get_rg(a):
    if a._rg:
        return True
    c = cx.CUR
    if c is None or not c.env.get("track_grad"):
        return False
    # a computed tensor requires grad iff some element still depends on a live autograd leaf
    leaf = c.env.get("leafvars") or set()
    live = leaf - c.stopgrad
    for x in a._p.reshape(-1):
        if isinstance(x, T) and x.sort == "R" and (tm.free_vars(x) & live):
            return True
    return False


@handler("__set__:requires_grad")
def h_set_rg(a, v):
    if v:
        h_requires_grad_(a)
    else:
        a._rg = False


@handler("__get__:is_leaf")
def h_is_leaf(a):
    return a._leaf or not a._rg


@handler("__get__:grad")
def h_get_grad(a):
    return a._symgrad


@handler("__set__:grad")
def h_set_grad(a, v):
    a._symgrad = v


@handler("__delete__:grad")
def h_del_grad(a):
    a._symgrad = None


@handler("__get__:grad_fn")
def h_grad_fn(a):
    return None if (a._leaf or not a._rg) else "SymGradFn"


@handler("detach")
def h_detach(a):
    t = _tensor_mod()
    r = t.SymTensor(a._p.copy(), a.dtype)
    if cx.CUR is not None and cx.CUR.env.get("track_grad"):
        cut_inplace(r)
    r._nocut = True
    return r


@handler("detach_")
def h_detach_(a):
    if cx.CUR is not None and cx.CUR.env.get("track_grad"):
        cut_inplace(a)
    a._rg = False
    return a


@handler("__get__:data")
def h_data(a):
    return h_detach(a)


@handler("__set__:data")
def h_set_data(a, v):
    t = _tensor_mod()
    a._p = t.payload(v).copy()
    t._after_inplace(a)


@handler("retain_grad")
def h_retain_grad(a):
    return None


def _grad_of(outputs, inputs, grad_outputs, keep_graph):
    t = _tensor_mod()
    c = _ctx()
    res = []
    for inp in inputs:
        if not isinstance(inp, t.SymTensor) or not inp._rg:
            raise RuntimeError("One of the differentiated Tensors does not require grad")
        g = np.empty(inp._p.shape, dtype=object)
        flat_in = inp._p.reshape(-1)
        flat_g = g.reshape(-1)
        for j in range(flat_in.size):
            x = flat_in[j]
            acc = []
            for o, go in zip(outputs, grad_outputs):
                po = t.payload(o).reshape(-1)
                pg = np.broadcast_to(t.payload(go), t.payload(o).shape).reshape(-1) if go is not None else None
                for i in range(po.size):
                    d = tm.D(po[i], x)
                    if d is tm.ZERO:
                        continue
                    acc.append(d if pg is None else tm.mul(pg[i], d))
            flat_g[j] = tm.add(*acc) if acc else tm.ZERO
        if not keep_graph:
            # the result leaves the graph: express it in the original symbols (canonical terms)
            keep = c.stopgrad
            for j in range(flat_g.size):
                flat_g[j] = resolve(flat_g[j], c, keep=keep)
        r = t.SymTensor(g, inp.dtype)
        if keep_graph:
            r._rg = True
            r._leaf = False
        res.append(r)
    return tuple(res)


@handler("grad")
def h_autograd_grad(outputs, inputs, grad_outputs=None, retain_graph=None, create_graph=False,
                    only_inputs=True, allow_unused=None, is_grads_batched=False, materialize_grads=False):
    single_o = isinstance(outputs, torch.Tensor)
    outputs = (outputs,) if single_o else tuple(outputs)
    inputs = (inputs,) if isinstance(inputs, torch.Tensor) else tuple(inputs)
    if grad_outputs is None:
        grad_outputs = (None,) * len(outputs)
    elif isinstance(grad_outputs, torch.Tensor):
        grad_outputs = (grad_outputs,)
    for o in outputs:
        if _tensor_mod().payload(o).size != 1 and grad_outputs[0] is None:
            raise RuntimeError("grad can be implicitly created only for scalar outputs")
    return _grad_of(outputs, inputs, grad_outputs, create_graph)


@handler("backward")
def h_backward(a, gradient=None, retain_graph=None, create_graph=False, inputs=None):
    t = _tensor_mod()
    c = _ctx()
    if a._p.size != 1 and gradient is None:
        raise RuntimeError("grad can be implicitly created only for scalar outputs")
    leaves = [l for l in c.grad_leaves if l._rg and l._leaf]
    gs = _grad_of((a,), leaves, (gradient,), False)
    for l, g in zip(leaves, gs):
        if all(x is tm.ZERO for x in g._p.reshape(-1)) and l._symgrad is None and not c.env.get("dense_grad", True):
            continue
        g._nocut = True
        if l._symgrad is None:
            l._symgrad = g
        else:
            l._symgrad = t.SymTensor(t._map(el.add, l._symgrad._p, g._p), l.dtype)
    return None


@handler("register_hook")
def h_register_hook(a, hook):
    raise EngineUnsupported("tensor hooks")
