"""C18 — Black-Scholes functions are total at maturity and at zero volatility."""
import numpy as np
import torch

from harness.lib import Case
from harness import common as cm
from symtorch import api, ctx as cx, elem as el, facades, terms as tm
from symtorch import tensor as st
from symtorch.api import elem

META = {
    "stubs": ["simulate(): fresh symbolic positive price buffers (hedger-level cases)"],
    "axioms": ["extended-real element model: (nan, +inf, -inf, value) with IEEE-754 rules for special values, exact arithmetic for finite ones; "
               "Phi(+-inf) = 1/0, exp(-inf) = 0; exp/Phi bounds and monotonicity instances"],
    "assumptions": ["signed zeros are not modelled (all zeros are +0); finite overflow/underflow is not modelled ('tiny but non-zero' t or v is outside the claim)",
                    "inputs are finite reals; strike > 0; running maximum >= spot",
                    "Greeks obtained through autograd (lookback delta, American-binary gamma) are outside the extended-real model: "
                    "NaN propagation of reverse-mode autograd is not modelled"],
}


def zeros_like_input(c, x):
    return x * 0.0 if not isinstance(x, st.SymTensor) else st._full(x.shape, 0, x.dtype)


def xfinite(c, name, out):
    for i, e in enumerate(api.elems(out)):
        c.check("%s[%d] is not NaN" % (name, i), api.notnan(e))


def val(e):
    """finite value of an element (X-mode) as a scalar usable in oracle arithmetic"""
    if isinstance(e, el.XReal):
        return api.SymReal(e.val)
    return e


def is_fin(e):
    return api.finite(e)


def edge_inputs(c, edge, mixed):
    """s, t, v of shape (1,) at the edge; mixed: shape (2,) whose entry 0 is at the edge and entry 1 is an arbitrary regular point
    (a batch mixing expired and live options, as the maturity column next to the other columns of a path)"""
    n = 2 if mixed else 1
    s = api.tensor(c, "s", (n,))
    t = api.tensor(c, "t", (n,), nonneg=True)
    v = api.tensor(c, "v", (n,), nonneg=True)
    z = zeros_like_input(c, t[:1])
    if edge == "t0":
        t = torch.cat([z, t[1:]]) if mixed else z
    else:
        v = torch.cat([z, v[1:]]) if mixed else z
    return s, t, v, n


def price_case(kind, call, edge, mixed=False):
    """edge in {'t0','v0'}: price equals the then-certain payoff, and is not NaN"""
    from pfhedge.nn import functional as F

    def fn(c):
        K = api.real(c, "K", pos=True)
        s, t, v, n = edge_inputs(c, edge, mixed)
        se = val(elem(s, 0))
        S = K * api.exp(se)
        if kind == "european":
            out = F.bs_european_price(s, t, v, strike=K, call=call)
            want = api.maxv(S - K, 0) if call else api.maxv(K - S, 0)
            cond = True
        elif kind == "eubinary":
            out = F.bs_european_binary_price(s, t, v, call=call)
            want = api.ite(api.gt(se, 0), 1, 0) if call else api.ite(api.lt(se, 0), 1, 0)
            cond = api.not_(api.eq(se, 0))  # away from the strike
        else:
            m = api.tensor(c, "m", (n,))
            me = val(elem(m, 0))
            c.assume(api.ge(me, se))
            if mixed:
                c.assume(api.ge(val(elem(m, 1)), val(elem(s, 1))))
            M = K * api.exp(me)
            if kind == "ambinary":
                out = F.bs_american_binary_price(s, m, t, v)
                want = api.ite(api.ge(me, 0), 1, 0)
                cond = True
            else:
                out = F.bs_lookback_price(s, m, t, v, K)
                want = api.maxv(M - K, 0)
                cond = True
        o = elem(out, 0)
        c.check("%s %s price at %s is not NaN" % (kind, "call" if call else "put", edge), api.notnan(o))
        c.check("%s %s price at %s is finite" % (kind, "call" if call else "put", edge), api.finite(o))
        c.check("%s %s price at %s equals the certain payoff" % (kind, "call" if call else "put", edge),
                api.implies(cond, api.eq(val(o), want)))
        if kind == "european":
            c.control("control:price at %s equals forward value S-K" % edge, api.eq(val(o), (S - K) if call else (K - S)))

    return fn


def delta_case(kind, call, edge, mixed=False):
    from pfhedge.nn import functional as F

    def fn(c):
        K = api.real(c, "K", pos=True)
        s, t, v, n = edge_inputs(c, edge, mixed)
        se = val(elem(s, 0))
        away = api.not_(api.eq(se, 0))
        if kind == "european":
            out = F.bs_european_delta(s, t, v, call=call)
            want = api.ite(api.gt(se, 0), 1, 0) if call else api.ite(api.lt(se, 0), -1, 0)
        elif kind == "eubinary":
            out = F.bs_european_binary_delta(s, t, v, call=call, strike=K)
            want = 0
        else:
            m = api.tensor(c, "m", (n,))
            me = val(elem(m, 0))
            c.assume(api.ge(me, se))
            if mixed:
                c.assume(api.ge(val(elem(m, 1)), val(elem(s, 1))))
            out = F.bs_american_binary_delta(s, m, t, v, K)
            want = 0
            away = api.not_(api.eq(me, 0))  # barrier not exactly at the strike
            if True:
                away = api.all_(away, api.not_(api.eq(se, 0)))
        o = elem(out, 0)
        tag = "%s %s delta at %s" % (kind, "call" if call else "put", edge)
        # "no price or delta is NaN": everywhere at the edge, the strike itself included (there d1, d2 are 0/0 := 0 and the American
        # binary is already knocked in because the running maximum is at least the spot)
        c.check(tag + " is not NaN", api.notnan(o))
        c.check(tag + " takes its limiting value", api.implies(away, api.all_(api.finite(o), api.eq(val(o), want))))

    return fn


def reject_case(fname):
    """negative time to maturity / volatility is rejected with an error, never a silent NaN"""
    from pfhedge.nn import functional as F

    def fn(c):
        K = api.real(c, "K", pos=True)
        s = api.tensor(c, "s", (2,))
        t = api.tensor(c, "t", (2,))
        v = api.tensor(c, "v", (2,))
        m = api.tensor(c, "m", (2,))
        calls = {
            "d1": lambda: F.d1(s, t, v), "d2": lambda: F.d2(s, t, v),
            "european_price": lambda: F.bs_european_price(s, t, v, K), "european_delta": lambda: F.bs_european_delta(s, t, v),
            "european_gamma": lambda: F.bs_european_gamma(s, t, v, K), "european_vega": lambda: F.bs_european_vega(s, t, v, K),
            "european_theta": lambda: F.bs_european_theta(s, t, v, K),
            "eubinary_price": lambda: F.bs_european_binary_price(s, t, v), "eubinary_delta": lambda: F.bs_european_binary_delta(s, t, v),
            "eubinary_gamma": lambda: F.bs_european_binary_gamma(s, t, v),
            "ambinary_price": lambda: F.bs_american_binary_price(s, m, t, v), "ambinary_delta": lambda: F.bs_american_binary_delta(s, m, t, v, K),
            "lookback_price": lambda: F.bs_lookback_price(s, m, t, v, K),
        }
        try:
            calls[fname]()
            raised = False
        except ValueError:
            raised = True
        ok = api.all_(*[api.all_(api.ge(val(a), 0), api.ge(val(b), 0)) for a, b in zip(api.elems(t), api.elems(v))])
        if raised:
            c.check("%s raised only for a negative input" % fname, api.not_(ok))
        else:
            c.check("%s returned only for non-negative t and v" % fname, ok)

    return fn


def hedger_case(model_kind, deriv_kind, T, cost_pos):
    """finite hedge and P&L on every path, including the final step (time to maturity exactly 0)"""

    def fn(c):
        from pfhedge.instruments import BrownianStock
        from pfhedge.nn import BlackScholes, Hedger, WhalleyWilmott

        N = 1
        dt = api.real(c, "dt", pos=True)
        sigma = api.real(c, "sigma", pos=True)
        cost = api.real(c, "cost", pos=True) if cost_pos else 0.0
        with facades.real_torch():
            ul = BrownianStock(sigma=sigma, cost=cost, dt=dt)
        ul.register_buffer("spot", api.tensor(c, "spot", (N, T), pos=True))
        deriv = cm.make_derivative(c, deriv_kind, ul, strike=api.real(c, "K", pos=True))
        with facades.real_torch():
            model = BlackScholes(deriv) if model_kind == "bs" else WhalleyWilmott(deriv, a=api.real(c, "a", pos=True))
            hedger = Hedger(model, model.inputs())
        hedge = hedger.compute_hedge(deriv)
        pl = hedger.compute_pl(deriv)
        for i, e in enumerate(api.elems(hedge)):
            c.check("hedge[%d] finite" % i, api.finite(e))
        for i, e in enumerate(api.elems(pl)):
            c.check("pl[%d] finite" % i, api.finite(e))

    return fn


def cases():
    cs = []
    enc = ("d1", "d2", "ncdf", "npdf", "bs_european_price/delta/gamma/vega/theta", "bs_european_binary_price/delta/gamma",
           "bs_american_binary_price/delta", "bs_lookback_price", "Hedger(BlackScholes(d)).compute_hedge/compute_pl",
           "Hedger(WhalleyWilmott(d)).compute_hedge/compute_pl", "WhalleyWilmott.forward/width", "ww_width")
    fam = ("basic", "mono", "bounds")
    for edge in ("t0", "v0"):
        for kind, calls in (("european", (True, False)), ("eubinary", (True, False)), ("ambinary", (True,)), ("lookback", (True,))):
            for call in calls:
                cs.append(Case("price/%s/%s/%s" % (kind, "call" if call else "put", edge), price_case(kind, call, edge), xmode=True,
                               encodes=enc, bounds="all finite log-moneyness, %s, K>0%s" % (
                                   "t=0, v>=0" if edge == "t0" else "v=0, t>=0", ", running max >= spot" if kind in ("ambinary", "lookback") else ""),
                               families=fam, batch=False))
        for kind, calls in (("european", (True, False)), ("eubinary", (True, False)), ("ambinary", (True,))):
            for call in calls:
                cs.append(Case("delta/%s/%s/%s" % (kind, "call" if call else "put", edge), delta_case(kind, call, edge), xmode=True,
                               encodes=enc, bounds="all finite log-moneyness away from the strike", families=fam, batch=False))
    # batches mixing an expired / zero-volatility entry with a live one (the guards must act per element)
    for edge in ("t0", "v0"):
        for kind, calls in (("european", (True,)), ("eubinary", (True,)), ("ambinary", (True,)), ("lookback", (True,))):
            cs.append(Case("price-mixed/%s/%s" % (kind, edge), price_case(kind, True, edge, mixed=True), xmode=True, encodes=enc,
                           bounds="shape (2,): entry 0 at the edge, entry 1 arbitrary t, v >= 0", families=fam, batch=False,
                           tier="quick" if kind == "ambinary" else "thorough", timeout=120))
        for kind in ("european", "eubinary", "ambinary"):
            cs.append(Case("delta-mixed/%s/%s" % (kind, edge), delta_case(kind, True, edge, mixed=True), xmode=True, encodes=enc,
                           bounds="shape (2,): entry 0 at the edge, entry 1 arbitrary t, v >= 0", families=fam, batch=False, timeout=120))
    for f in ("d1", "d2", "european_price", "european_delta", "european_gamma", "european_vega", "european_theta", "eubinary_price",
              "eubinary_delta", "eubinary_gamma", "ambinary_price", "ambinary_delta", "lookback_price"):
        cs.append(Case("reject-negative/%s" % f, reject_case(f), xmode=True, encodes=enc, expect_exc=(ValueError,),
                       bounds="tensors (2,), all real t, v", families=("basic",), batch=False))
    for mk, dk in (("bs", "european"), ("bs", "european_binary"), ("ww", "european"), ("ww", "european_binary")):
        for cost_pos in (False, True):
            cs.append(Case("hedger/%s/%s/cost=%s" % (mk, dk, "pos" if cost_pos else "zero"), hedger_case(mk, dk, 3, cost_pos), xmode=True,
                           encodes=enc, bounds="N=1 T=3, symbolic positive path, symbolic dt, sigma, strike", families=fam, timeout=120 if not cost_pos else 150,
                           tier="quick" if not cost_pos else "thorough", batch=False))
    cs.append(Case("hedger/bs/american_binary/cost=zero", hedger_case("bs", "american_binary", 3, False), xmode=True, tier="thorough",
                   encodes=enc, bounds="N=1 T=3", families=fam, timeout=300, batch=False))
    cs.append(Case("hedger/bs/european/T4", hedger_case("bs", "european", 4, True), xmode=True, tier="thorough",
                   encodes=enc, bounds="N=1 T=4", families=fam, timeout=300, batch=False))
    return cs
