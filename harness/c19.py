"""C19 — bisection and implied volatility invert monotone functions to precision."""
from fractions import Fraction

import numpy as np
import torch

from harness.lib import Case
from symtorch import api, ctx as cx, facades, terms as tm
from symtorch import tensor as st
from symtorch.api import elem

META = {
    "stubs": ["the function under inversion: one arbitrary strictly monotone function per tensor element -- every evaluation returns a fresh "
              "value constrained only by strict monotonicity against all earlier evaluations and against the (symbolic) root; "
              "replay uses x^3 + x (resp. its negative) scaled per element"],
    "axioms": ["linear real arithmetic with ite; for implied volatility: the true Black-Scholes price is strictly monotone in volatility "
               "(sign of vega decided in lemma/vega-sign/* for European and European binary on log-moneyness > 0, trusted for the lookback; "
               "+ mean-value theorem), instantiated between every evaluated volatility and the generating one"],
    "assumptions": ["continuity is assumed through the existence of a root r with f(r) = target inside the bracket",
                    "bracket width / precision <= 2^6 (quick) / 2^10 (thorough): the real loop is unrolled by the path explorer; "
                    "precision 1e-6 on the real bracket (20 iterations of Phi-terms) is outside the claim",
                    "European binary implied volatility only on log-moneyness > 0 (call decreasing, put increasing in volatility); "
                    "on log-moneyness <= 0 and for the American binary the price is not monotone in volatility: not claimed"],
}


class MonoFn:
    """strictly monotone function, one per element"""

    def __init__(self, c, shape, increasing=True, name="f"):
        self.c = c
        self.shape = tuple(shape)
        self.inc = increasing
        self.name = name
        self.points = []  # (x terms array, y terms array)
        self.n = 0
        if c.mode == "concrete":
            self.scale = [1.0 + 0.5 * i for i in range(int(np.prod(shape)) or 1)]

    def __call__(self, x):
        c = self.c
        self.n += 1
        if c.mode == "concrete":
            x = torch.as_tensor(x, dtype=torch.float64)
            xb = x.expand(self.shape) if self.shape else x
            sc = torch.tensor(self.scale, dtype=torch.float64).reshape(self.shape) if self.shape else torch.tensor(self.scale[0], dtype=torch.float64)
            y = sc * (xb ** 3 + xb) + 0.25
            return y if self.inc else -y
        px = np.broadcast_to(st.payload(x), self.shape) if self.shape else st.payload(x)
        y = st.fresh_tensor(self.shape, "%s_val" % self.name, torch.float64)
        py = y._p
        fx, fy = px.reshape(-1), py.reshape(-1)
        for (qx, qy) in self.points:
            gx, gy = qx.reshape(-1), qy.reshape(-1)
            for e in range(fx.size):
                self._mono(fx[e], fy[e], gx[e], gy[e])
        self.points.append((np.array(px, dtype=object).reshape(self.shape), py))
        return y

    def _mono(self, x1, y1, x2, y2):
        c = self.c
        lt, gt = (tm.lt, tm.gt) if self.inc else (tm.gt, tm.lt)
        c.assume(tm.implies(tm.lt(x1, x2), lt(y1, y2)))
        c.assume(tm.implies(tm.gt(x1, x2), gt(y1, y2)))
        c.assume(tm.implies(tm.eq(x1, x2), tm.eq(y1, y2)))


def bisect_case(shape, lower, upper, precision, increasing, tensor_bounds=False, max_iter=None, expect=None, controls=False, uppers=None):
    from pfhedge._utils.bisect import bisect

    def fn(c):
        f = MonoFn(c, shape, increasing)
        if uppers is None:
            r = api.tensor(c, "root", shape, lo=lower, hi=upper)
        else:
            # per-element brackets of different widths: [lower, uppers[e]]
            r = api.tensor(c, "root", shape, lo=lower)
            for e_, u_ in zip(api.elems(r), uppers):
                c.assume(api.le(e_, u_))
        target = f(r)  # targets inside the range of f on the bracket, root r
        lo_ = torch.full(shape, float(lower), dtype=torch.float64) if tensor_bounds else lower
        up_ = (torch.full(shape, float(upper), dtype=torch.float64) if tensor_bounds else upper) if uppers is None else None
        if uppers is not None:
            up_ = torch.tensor([float(u_) for u_ in uppers], dtype=torch.float64).reshape(shape)
        kw = {} if max_iter is None else {"max_iter": max_iter}
        if expect is not None:
            try:
                bisect(f, target, lo_, up_, precision=precision, **kw)
                raised = None
            except (RuntimeError, ValueError) as e:
                raised = type(e).__name__
            c.check("raises %s" % expect, raised == expect)
            c.check("stops instead of looping (evaluations bounded)", f.n <= (max_iter or 0) + 6)
            return
        out = bisect(f, target, lo_, up_, precision=precision, **kw)
        c.check("output shape", tuple(out.shape) == tuple(shape))
        for idx in np.ndindex(*shape) if shape else [()]:
            o, rr = elem(out, *idx), elem(r, *idx)
            c.check("|bisect - root| <= precision %s" % (list(idx),), api.le(api.absv(o - rr), precision))
            hi_ = upper if uppers is None else uppers[int(np.ravel_multi_index(idx, shape))]
            c.check("result inside the bracket %s" % (list(idx),), api.all_(api.ge(o, lower), api.le(o, hi_)))
        if controls:
            idx = tuple(0 for _ in shape)
            c.control("control:|bisect - root| <= precision/8", api.le(api.absv(elem(out, *idx) - elem(r, *idx)), precision / 8))

    return fn


IV_KINDS = {
    # kind: (module factory, module file holding the find_implied_volatility reference, direction of the price in volatility, domain)
    "european": (lambda nn, K: nn.BSEuropeanOption(strike=K), "pfhedge.nn.modules.bs.european", +1),
    "european-put": (lambda nn, K: nn.BSEuropeanOption(call=False, strike=K), "pfhedge.nn.modules.bs.european", +1),
    "lookback": (lambda nn, K: nn.BSLookbackOption(strike=K), "pfhedge.nn.modules.bs.lookback", +1),
    # European binary: monotone in volatility on log-moneyness > 0 only (call decreasing, put increasing)
    "eubinary-call-itm": (lambda nn, K: nn.BSEuropeanBinaryOption(strike=K), "pfhedge.nn.modules.bs.european_binary", -1),
    "eubinary-put-otm": (lambda nn, K: nn.BSEuropeanBinaryOption(call=False, strike=K), "pfhedge.nn.modules.bs.european_binary", +1),
}


def iv_case(kind, precision, contract=False):
    """implied_volatility(price(v0)) reproduces v0 to the requested precision"""

    def fn(c):
        import importlib

        from pfhedge import nn

        make, modname, direction = IV_KINDS[kind]
        K = api.real(c, "K", pos=True)
        shape = (1,)
        if kind.startswith("eubinary"):
            s = api.tensor(c, "s", shape, pos=True, hi=1)
            if c.mode == "sym":
                c.assume(api.gt(elem(s, 0), 0))
        else:
            s = api.tensor(c, "s", shape, lo=-1, hi=1)
        t = api.tensor(c, "t", shape, pos=True, hi=5)
        # (the bracket's lower end is the double 0.001, a hair above 1/1000: the generating volatility stays clear of it)
        v0 = api.tensor(c, "v0", shape, lo=Fraction(1, 500) if contract else Fraction(1, 1000), hi=1)
        with facades.real_torch():
            m = make(nn, K)
        extra = {}
        if kind == "lookback":
            mx = api.tensor(c, "m", shape, lo=-1, hi=1)
            c.assume(api.ge(elem(mx, 0), elem(s, 0)))
            extra = {"max_log_moneyness": mx}
        state = dict(log_moneyness=s, time_to_maturity=t, **extra)
        p0 = m.price(volatility=v0, **state)
        seen, n_eval = [], [0]
        lt, gt = (tm.lt, tm.gt) if direction > 0 else (tm.gt, tm.lt)

        def lemma(volatility):
            """the TRUE price (the module's own price(), evaluated by the harness at the caller's state) is strictly monotone in
            volatility: instantiated between the queried volatility, the generating one and all earlier queries.  It constrains the
            value the code under test computes only if that is the same term."""
            n_eval[0] += 1
            if c.mode != "sym":
                return
            truth = m.price(volatility=volatility, **state)
            zero = tm.const(0)
            for a, b, y, y0 in zip(st.terms_of(volatility) * len(st.terms_of(truth)), st.terms_of(v0), st.terms_of(truth), st.terms_of(p0)):
                pos = tm.gt(a, zero)  # (the lemma holds on positive volatilities only)
                c.assume(tm.implies(tm.and_(pos, tm.lt(a, b)), lt(y, y0)))
                c.assume(tm.implies(tm.and_(pos, tm.gt(a, b)), gt(y, y0)))
                c.assume(tm.implies(tm.eq(a, b), tm.eq(y, y0)))
            for (a2, y2) in seen:
                for a, y in zip(st.terms_of(volatility) * len(st.terms_of(truth)), st.terms_of(truth)):
                    pos = tm.and_(tm.gt(a, zero), tm.gt(a2, zero))
                    c.assume(tm.implies(tm.and_(pos, tm.lt(a, a2)), lt(y, y2)))
                    c.assume(tm.implies(tm.and_(pos, tm.gt(a, a2)), gt(y, y2)))
            seen.append((st.terms_of(volatility)[0], st.terms_of(truth)[0]))

        import pfhedge._utils.bisect as bmod

        real_bisect, rec = bmod.bisect, []

        class WrongCall(Exception):
            pass

        if contract:
            # the search itself is replaced by its contract (verified in the bisect/* cases): any precision can be requested
            from harness.stubs import BisectSpy, BisectStub

            inner = BisectStub(c, check_preconditions=True, name="implied_volatility->bisect") if c.mode == "sym" else \
                BisectSpy(c, real_bisect, check_preconditions=True, name="implied_volatility->bisect")
        else:
            inner = real_bisect

        def spy(fn_, target, lower, upper, **kw):
            rec.append((lower, upper, kw))
            if not contract and kw.get("precision") != precision:
                # a search at another precision than the requested one is not unrolled here (1e-6 needs 20 iterations of
                # Phi-terms); whether it is accurate enough is decided by the iv-contract/* cases
                raise WrongCall()

            def fn_w(vol):
                lemma(vol)
                return fn_(vol)

            return inner(fn_w, target, lower, upper, **kw)

        bmod.bisect = spy
        try:
            iv = m.implied_volatility(price=p0, precision=precision, **state)
        except WrongCall:
            from symtorch.tensor import EngineUnsupported

            raise EngineUnsupported("implied_volatility searches at precision %r instead of the requested %r: not unrolled "
                                    "(see iv-contract/*)" % (rec[0][2].get("precision"), precision))
        finally:
            bmod.bisect = real_bisect
        c.check("the search bracket is [0.001, 1]", len(rec) >= 1 and abs(float(rec[0][0]) - 0.001) < 1e-6 and float(rec[0][1]) == 1.0)
        c.check("implied volatility shape", tuple(iv.shape) == shape)
        c.check("|IV(price(v0)) - v0| <= precision", api.le(api.absv(elem(iv, 0) - elem(v0, 0)), precision, tol=min(1e-9, precision * 1e-2)))
        c.check("IV inside the search bracket", api.all_(api.ge(elem(iv, 0), Fraction(1, 1000)), api.le(elem(iv, 0), 1)))
        c.check("the pricer is evaluated during the search", n_eval[0] >= 3)
        if contract and kind != "lookback" and precision >= 1e-3:
            # (vacuity guard of the contract cases: at a coarse precision, where the real search misses precision/16 by a margin the
            #  replay can see; at 1e-9 the real error is a matter of rounding luck.  The lookback control does not come back within the
            #  budget; the other four guard the shared stub and lemma)
            c.control("control:|IV - v0| <= precision/16", api.le(api.absv(elem(iv, 0) - elem(v0, 0)), precision / 16))
        elif not contract and kind in ("european", "eubinary-call-itm"):
            c.control("control:|IV - v0| <= precision/16", api.le(api.absv(elem(iv, 0) - elem(v0, 0)), precision / 16))

    return fn


def vega_sign_case(kind):
    """the monotonicity lemma used by the IV cases, decided rather than trusted where the axiom list suffices: the symbolic derivative of
    the executed price() w.r.t. volatility has a strict sign on the whole domain (monotone by the mean-value theorem)"""

    def fn(c):
        from harness.c08 import dfun
        from pfhedge import nn

        make, _, direction = IV_KINDS[kind]
        K = api.real(c, "K", pos=True)
        if kind.startswith("eubinary"):
            s = api.tensor(c, "s", (1,), pos=True, hi=1)
            if c.mode == "sym":
                c.assume(api.gt(elem(s, 0), 0))
        else:
            s = api.tensor(c, "s", (1,), lo=-1, hi=1)
        t = api.tensor(c, "t", (1,), pos=True, hi=5)
        v = api.tensor(c, "v", (1,), pos=True, hi=1)
        with facades.real_torch():
            m = make(nn, K)
        P_v = dfun(c, lambda y: m.price(log_moneyness=s, time_to_maturity=t, volatility=y), v)
        if direction > 0:
            c.check("price strictly increasing in volatility (dP/dv > 0)", api.gt(elem(P_v, 0), 0))
            c.control("control:dP/dv < 0", api.lt(elem(P_v, 0), 0))
        else:
            c.check("price strictly decreasing in volatility (dP/dv < 0)", api.lt(elem(P_v, 0), 0))
            c.control("control:dP/dv > 0", api.gt(elem(P_v, 0), 0))

    return fn


def cases():
    cs = []
    enc = ("pfhedge._utils.bisect.bisect", "find_implied_volatility", "BSEuropeanOption.implied_volatility", "BSLookbackOption.implied_volatility",
           "BSEuropeanBinaryOption.implied_volatility")
    H = Fraction(1, 2)
    for inc in (True, False):
        d = "inc" if inc else "dec"
        cs.append(Case("bisect/%s/scalar-bounds/(2,)/2^-3" % d, bisect_case((2,), 0, 1, 0.125, inc, controls=True), encodes=enc,
                       bounds="bracket [0,1], precision 1/8 (3 iterations), 2 elements with different functions", max_paths=8))
        cs.append(Case("bisect/%s/tensor-bounds/(2,2)/2^-4" % d, bisect_case((2, 2), -1, 3, 0.25, inc, tensor_bounds=True), encodes=enc,
                       bounds="bracket [-1,3], precision 1/4 (4 iterations), 4 elements", max_paths=8, timeout=60))
        cs.append(Case("bisect/%s/0-dim/2^-6" % d, bisect_case((), 0, 1, 1 / 64, inc), encodes=enc,
                       bounds="bracket [0,1], precision 1/64 (6 iterations), 0-dim", max_paths=8, timeout=60))
        cs.append(Case("bisect/%s/(3,)/2^-10" % d, bisect_case((3,), 0, 1, 1 / 1024, inc), tier="thorough", encodes=enc,
                       bounds="precision 2^-10 (10 iterations), 3 elements", max_paths=8, timeout=300))
    for inc in (True, False):
        cs.append(Case("bisect/%s/per-element-brackets" % ("inc" if inc else "dec"), bisect_case((3,), 0, None, 0.125, inc, tensor_bounds=True, uppers=(1, 4, 0.5)),
                       encodes=enc, bounds="brackets [0,1], [0,4], [0,1/2] in one call, precision 1/8 (the widest needs 5 iterations)", max_paths=8, timeout=60))
    cs.append(Case("bisect/max_iter-too-small", bisect_case((2,), 0, 1, 1 / 64, True, max_iter=3, expect="RuntimeError"), encodes=enc,
                   bounds="needs 6 iterations, max_iter=3", max_paths=8))
    cs.append(Case("bisect/max_iter-exact", bisect_case((2,), 0, 1, 0.125, True, max_iter=3), encodes=enc, bounds="needs 3 iterations, max_iter=3", max_paths=8))
    cs.append(Case("bisect/inverted-bracket", bisect_case((2,), 1, 1, 0.125, True, expect="ValueError"), encodes=enc, bounds="lower == upper", max_paths=8))
    cs.append(Case("iv/european/2^-3", iv_case("european", 0.125), encodes=enc, bounds="precision 1/8 over the real bracket [0.001, 1] (3 iterations), all "
                   "log-moneyness in [-1,1], t in (0,5], K>0, v0 in [0.001,1]", families=("basic", "mono", "bounds"), max_paths=8, timeout=120))
    cs.append(Case("iv/lookback/2^-3", iv_case("lookback", 0.125), encodes=enc, bounds="precision 1/8 (3 iterations)", families=("basic", "mono", "bounds"),
                   max_paths=8, timeout=120, wall=240))
    for k in ("european-put", "eubinary-call-itm", "eubinary-put-otm"):
        cs.append(Case("iv/%s/2^-3" % k, iv_case(k, 0.125), encodes=enc, bounds="precision 1/8 (3 iterations)%s" % (
            "; log-moneyness in (0,1] where the binary price is monotone in volatility" if "binary" in k else ""),
            families=("basic", "mono", "bounds"), max_paths=8, timeout=120))
    for k in IV_KINDS:
        if k != "lookback":
            cs.append(Case("iv-contract/%s/2^-6" % k, iv_case(k, 1 / 64, contract=True), encodes=enc,
                           bounds="requested precision 1/64 (carries the negative control of the contract cases)",
                           families=("basic", "mono", "bounds"), max_paths=16, timeout=120))
        cs.append(Case("iv-contract/%s/1e-9" % k, iv_case(k, 1e-9, contract=True), encodes=enc,
                       bounds="requested precision 1e-9; bisect replaced by its contract with the precision that actually reaches it",
                       families=("basic", "mono", "bounds"), max_paths=16, timeout=120))
    for k in ("european", "european-put", "eubinary-call-itm", "eubinary-put-otm"):
        cs.append(Case("lemma/vega-sign/%s" % k, vega_sign_case(k), encodes=enc, bounds="whole domain t>0, v>0, K>0%s" % (
            ", log-moneyness > 0" if "binary" in k else ""), families=("basic", "mono", "bounds"), batch=False, timeout=120))
    cs.append(Case("iv/european/2^-5", iv_case("european", 1 / 32), tier="thorough", encodes=enc, bounds="precision 1/32 (5 iterations)",
                   families=("basic", "mono", "bounds"), max_paths=8, timeout=600))
    return cs
