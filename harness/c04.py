"""C04 — risk measures obey the convex-risk-measure axioms."""
import math
from fractions import Fraction

import numpy as np
import torch

from harness.lib import Case
from harness.stubs import NotElementwise, patched_bisect
from symtorch import api, ctx as cx, facades, terms as tm
from symtorch import tensor as st
from symtorch.api import elem

META = {
    "stubs": ["bisect: assume-guarantee contract stub (memoised: identical arguments give the identical result, bisect being deterministic)",
              "int(math.log10(spread)): decade fixed per case"],
    "axioms": ["sorting networks of ite (QF_LRA) for the order statistics; exp: positivity, monotone, add-law, e^u >= 1+u (also instantiated by the "
               "harness at the points u_i - mean as true hints); log/exp inverse; sqrt; midpoint convexity + continuity gives convexity (stated lemma)"],
    "assumptions": ["exact reals; N<=6; mixing weights 1/2, 1/3 (midpoint-type convexity; full convexity by continuity)",
                    "NOT decided: convexity of the entropic risk measure for N>=2 and of IsoelasticLoss (Hoelder / Jensen-type facts beyond the axiom list), "
                    "entropic risk non-decreasing in a for N>=2 (power-mean inequality), quadratic-CVaR convexity and monotonicity (piecewise-quadratic minimisation: z3 nlsat does not finish within 600 s even for N=2)"],
}


def col(x, j=None):
    n = x.shape[0]
    return [elem(x, i) if j is None else elem(x, i, j) for i in range(n)]


def es_case(N, p, lam=None):
    from pfhedge.nn import functional as F
    from pfhedge.nn import ExpectedShortfall

    def fn(c):
        x = api.tensor(c, "x", (N,))
        y = api.tensor(c, "y", (N,))
        cst = api.real(c, "c")
        with facades.real_torch():
            m = ExpectedShortfall(p)
        rho = lambda t: elem(m(t))  # noqa: E731
        rx, ry = rho(x), rho(y)
        xs, ys = col(x), col(y)
        dom = api.all_(*[api.le(a, b) for a, b in zip(xs, ys)])
        c.check("ES monotone: x <= y pointwise => ES(x) >= ES(y)", api.implies(dom, api.ge(rx, ry)))
        c.check("ES cash-invariant", api.eq(rho(x + cst), rx - cst))
        for lm in (Fraction(1, 2), Fraction(1, 3)):
            mix = x * float(lm) + y * (1 - float(lm)) if c.mode == "concrete" else x * api.SymReal(lm) + y * api.SymReal(1 - lm)
            c.check("ES convex at lambda=%s" % lm, api.le(rho(mix), lm * rx + (1 - lm) * ry))
        c.check("ES bounds: -max <= ES <= -min", api.all_(api.ge(rx, -api.maxv(*xs)), api.le(rx, -api.minv(*xs))))
        c.check("ES >= -mean", api.ge(rx, -sum(xs[1:], xs[0]) / N))
        if math.ceil(p * N) < N:
            c.control("control:ES(x) <= -mean", api.le(rx, -sum(xs[1:], xs[0]) / N))
        if N > 1:
            c.control("control:ES anti-monotone", api.implies(dom, api.le(rx, ry)))
        for s in (2, Fraction(1, 3)):
            sc = x * float(s) if c.mode == "concrete" else x * api.SymReal(Fraction(s))
            c.check("ES positively homogeneous (scale %s)" % s, api.eq(rho(sc), s * rx))

    return fn


def es_scale_case(N, p):
    from pfhedge.nn import functional as F

    def fn(c):
        x = api.tensor(c, "x", (N,))
        s = api.real(c, "s", pos=True)
        r1 = elem(F.expected_shortfall(x * s, p, dim=0))
        r0 = elem(F.expected_shortfall(x, p, dim=0))
        c.check("ES positively homogeneous (symbolic scale)", api.eq(r1, s * r0))

    return fn


def es_level_case(N):
    from pfhedge.nn import functional as F

    def fn(c):
        x = api.tensor(c, "x", (N,))
        ps = sorted({Fraction(j, 2 * N) for j in range(1, 2 * N + 1)} | {Fraction(1, 10), Fraction(3, 10)})
        vals = [elem(F.expected_shortfall(x, float(p), dim=0)) for p in ps]
        for a, b, pa, pb in zip(vals, vals[1:], ps, ps[1:]):
            c.check("ES non-increasing in p: %s -> %s" % (pa, pb), api.ge(a, b))
        if N > 1:
            c.control("control:ES increasing in p", api.le(vals[0], vals[-1]))

    return fn


def entropic_case(N, M=0):
    from pfhedge.nn import EntropicRiskMeasure

    def fn(c):
        shape = (N, M) if M else (N,)
        x = api.tensor(c, "x", shape)
        y = api.tensor(c, "y", shape)
        a = api.real(c, "a", pos=True)
        cst = api.real(c, "c")
        with facades.real_torch():
            m = EntropicRiskMeasure(1.0)
        m.a = a
        j = M - 1 if M else None  # with a trailing shape: the last column, computed from the whole batch
        rho = lambda t: elem(m(t)) if not M else elem(m(t), j)  # noqa: E731
        rx, ry = rho(x), rho(y)
        xs, ys = col(x, j), col(y, j)
        if M:
            c.check("entropic output shape", tuple(m(x).shape) == (M,))
        dom = api.all_(*[api.le(p_, q_) for p_, q_ in zip(xs, ys)])
        # The axioms are decided in exponential form: exp(a*rho) is the executed term mean(exp(-a x)) (the
        # code's log cancels against exp), and exp is strictly increasing, so  rho R t  <=>  exp(a*rho) R exp(a*t).
        mean = sum(xs[1:], xs[0]) / N
        E = lambda t: api.exp(a * t)  # noqa: E731
        if c.mode == "sym":
            # true hints that introduce the atoms exp(-a x_i), exp(-a y_i) (whatever reference point the executed log-sum-exp uses, the
            # add-law instances then connect it to the individual outcomes)
            for e in list(xs) + list(ys):
                c.assume(api.gt(api.exp(-a * e), 0))
        c.check("entropic monotone", api.implies(dom, api.ge(E(rx), E(ry))))
        rxc = rho(x + cst)
        if c.mode == "sym":
            # true hints that introduce the atoms the add-law / tangent-line instances need
            c.assume(api.gt(api.exp(-a * cst), 0))
            c.assume(api.gt(api.exp(-a * mean), 0))
            for e in xs:
                u = -a * e + a * mean
                c.assume(api.ge(api.exp(u), 1 + u))  # e^u >= 1 + u
        c.check("entropic cash-invariant: exp(a rho(x+c)) = exp(a rho(x)) exp(-a c)", api.eq(E(rxc), E(rx) * api.exp(-a * cst)))
        # exp(-a .) is decreasing: exp(-a max x) = min_i exp(-a x_i), exp(-a min x) = max_i exp(-a x_i)
        es = [api.exp(-a * e) for e in xs]
        c.check("entropic bounds: -max <= rho <= -min (exponential form)", api.all_(api.ge(E(rx), api.minv(*es)), api.le(E(rx), api.maxv(*es))))
        c.check("entropic >= -mean (Jensen, exponential form)", api.ge(E(rx), api.exp(-a * mean)))
        if N > 1:
            c.control("control:entropic <= -mean", api.le(E(rx), api.exp(-a * mean)))

    return fn


def utility_loss_case(N):
    from pfhedge.nn import EntropicLoss, IsoelasticLoss

    def fn(c):
        x = api.tensor(c, "x", (N,), pos=True)
        y = api.tensor(c, "y", (N,), pos=True)
        a = api.real(c, "a", pos=True)
        with facades.real_torch():
            el_, i5, i1 = EntropicLoss(1.0), IsoelasticLoss(0.5), IsoelasticLoss(1.0)
        el_.a = a
        xs, ys = col(x), col(y)
        dom = api.all_(*[api.le(p_, q_) for p_, q_ in zip(xs, ys)])
        for name, m in (("EntropicLoss", el_), ("IsoelasticLoss(1/2)", i5), ("IsoelasticLoss(1)", i1)):
            c.check("%s monotone" % name, api.implies(dom, api.ge(elem(m(x)), elem(m(y)))))
        # midpoint convexity of the entropic loss (exp convex): hints introduce the atoms exp(-a(x_i+y_i))
        if N > 2:
            return  # (nlsat does not finish the N=3 instance within 300 s)
        if c.mode == "sym":
            for p_, q_ in zip(xs, ys):
                c.assume(api.gt(api.exp(-a * (p_ + q_)), 0))
        mid = (x + y) * 0.5
        c.check("EntropicLoss midpoint-convex", api.le(elem(el_(mid)), (elem(el_(x)) + elem(el_(y))) / 2))
        c.control("control:EntropicLoss midpoint-concave", api.ge(elem(el_(mid)), (elem(el_(x)) + elem(el_(y))) / 2))

    return fn


def qcvar_case(N, functional=False):
    from pfhedge.nn import QuadraticCVaR
    from pfhedge.nn import functional as F

    def fn(c):
        c.env["log10_decade"] = 0
        x = api.tensor(c, "x", (N,), lo=-3, hi=3)
        cst = api.real(c, "c", lo=-2, hi=2)
        lam = api.real(c, "lam", lo=1, hi=20)
        with facades.real_torch():
            m = QuadraticCVaR(10.0)
        m.lam = lam
        with patched_bisect(c, name="quadratic_cvar->bisect", check_preconditions=False) as stub:
            if functional:
                # the functional form, called twice on the caller's own sample tensor
                rx = elem(F.quadratic_cvar(x, lam))
                rxc = elem(F.quadratic_cvar(x + cst, lam))
            else:
                rx = elem(m(x))
                rxc = elem(m(x + cst))
        tol = 1e-5
        c.check("quadratic CVaR cash-invariant (identical search on the centred sample)", api.eq(rxc, rx - cst, tol=tol))
        xs = col(x)
        mean = sum(xs[1:], xs[0]) / N
        small = api.lt(api.maxv(*xs) - mean + Fraction(1, 10 ** 8), 1 / (2 * lam))
        prec = stub.calls[0]["precision"]
        slack = lam * prec * prec
        c.check("quadratic CVaR >= -max - 1/(4 lam) [regular sample]", api.implies(api.not_(small), api.ge(rx, -api.maxv(*xs) - 1 / (4 * lam) - slack, tol=1e-9)))
        c.check("quadratic CVaR <= -min [regular sample]", api.implies(api.not_(small), api.le(rx, -api.minv(*xs) + slack, tol=1e-9)))
        c.check("quadratic CVaR >= -mean - 1/(4 lam) [regular sample]", api.implies(api.not_(small), api.ge(rx, -mean - 1 / (4 * lam) - slack, tol=1e-9)))

    return fn


def qcvar_monotone_case(N):
    from pfhedge.nn import QuadraticCVaR

    def fn(c):
        c.env["log10_decade"] = 0
        x = api.tensor(c, "x", (N,), lo=-3, hi=3)
        y = api.tensor(c, "y", (N,), lo=-3, hi=3)
        lam = api.real(c, "lam", lo=1, hi=20)
        with facades.real_torch():
            m = QuadraticCVaR(10.0)
        m.lam = lam
        with patched_bisect(c, name="quadratic_cvar->bisect", check_preconditions=False) as stub:
            rx, ry = elem(m(x)), elem(m(y))
        xs, ys = col(x), col(y)
        dom = api.all_(*[api.le(p_, q_) for p_, q_ in zip(xs, ys)])
        reg = []
        for zs in (xs, ys):
            mean = sum(zs[1:], zs[0]) / N
            reg.append(api.not_(api.lt(api.maxv(*zs) - mean + Fraction(1, 10 ** 8), 1 / (2 * lam))))
        prec = max(k["precision"] for k in stub.calls)
        c.check("quadratic CVaR monotone up to lam*precision^2 [regular samples]",
                api.implies(api.all_(dom, *reg), api.ge(rx, ry - lam * prec * prec, tol=1e-9)))

    return fn


def cases():
    cs = []
    enc = ("expected_shortfall", "topp", "entropic_risk_measure", "exp_utility", "isoelastic_utility", "quadratic_cvar",
           "ExpectedShortfall/EntropicRiskMeasure/EntropicLoss/IsoelasticLoss/QuadraticCVaR.forward")
    lin = ("basic",)
    for N in (1, 2, 3, 4):
        for p in sorted({1.0, 0.5, 0.3, 1 / N}):
            cs.append(Case("es/N%d/p=%.3g" % (N, p), es_case(N, p), encodes=enc, families=lin, bounds="N=%d p=%.3g; all real samples" % (N, p), batch=False, timeout=60))
    for N, p in ((5, 0.5), (5, 0.3), (6, 0.5), (5, 0.9)):
        cs.append(Case("es/N%d/p=%.3g" % (N, p), es_case(N, p), tier="thorough", encodes=enc, families=lin, bounds="N=%d p=%.3g" % (N, p), batch=False, timeout=300))
    cs.append(Case("es/symbolic-scale/N3", es_scale_case(3, 0.5), encodes=enc, families=lin, bounds="N=3, symbolic scale s>0", batch=False, timeout=60))
    cs.append(Case("es/levels/N4", es_level_case(4), encodes=enc, families=lin, bounds="N=4, p on a grid of 10 levels", batch=False))
    cs.append(Case("es/levels/N6", es_level_case(6), tier="thorough", encodes=enc, families=lin, bounds="N=6", batch=False, timeout=300))
    for N in (1, 2, 3):
        cs.append(Case("entropic/N%d" % N, entropic_case(N), encodes=enc, families=("basic", "mono", "bounds"), bounds="N=%d, all a>0" % N, batch=False, timeout=60))
    cs.append(Case("entropic/N2xM2", entropic_case(2, 2), encodes=enc, families=("basic", "mono", "bounds"), bounds="shape (2,2): axioms per column", batch=False, timeout=60))
    cs.append(Case("entropic/N5", entropic_case(5), tier="thorough", encodes=enc, families=("basic", "mono", "bounds"), bounds="N=5", batch=False, timeout=300))
    cs.append(Case("utility-losses/N2", utility_loss_case(2), encodes=enc, families=("basic", "mono", "bounds"), bounds="N=2", batch=False, timeout=60))
    cs.append(Case("utility-losses/N3", utility_loss_case(3), tier="thorough", encodes=enc, families=("basic", "mono", "bounds"), bounds="N=3", batch=False, timeout=300))
    cs.append(Case("qcvar/N2", qcvar_case(2), encodes=enc, families=lin, bounds="N=2, 1<=lam<=20, spread in [1,10)", batch=False, timeout=120, max_paths=16))
    cs.append(Case("qcvar/N2/functional", qcvar_case(2, functional=True), encodes=enc, families=lin,
                   bounds="N=2, functional form evaluated twice on the same tensor", batch=False, timeout=120, max_paths=16))
    cs.append(Case("qcvar/N3", qcvar_case(3), tier="thorough", encodes=enc, families=lin, bounds="N=3", batch=False, timeout=300, max_paths=16))
    return cs
