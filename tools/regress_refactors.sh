#!/bin/bash
# regress_refactors.sh [glob]: apply every filed behaviour-preserving refactoring to /repo in turn and run the quick checks of the
# properties it touches; every line must show rc=0 (an alarm on one of these is a false alarm of the machinery).
cd "$(dirname "$0")/.."
for d in refactorings/${1:-*}/; do
  ps=$(python3 -c "import json; print(' '.join(json.load(open('$d/meta.json'))['properties_checked']))")
  tools/try_refactor.sh /verif/$d/patch.diff $ps
done
