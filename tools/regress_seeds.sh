#!/bin/bash
# regress_seeds.sh [glob]: apply every filed seeded change to /repo in turn, run the quick check of its property, undo it.
# Prints one line per seed: <seed> <property> exit=<code> violations=<n>.  Expected: exit=1 for every seed except the stated
# exclusions (C11-m2, C11-r2m1: dtype; C13-m2, C12-r2m2: float rounding of a quotient), which stay at exit=0.
# /repo must be clean and nothing else may use it meanwhile.
cd "$(dirname "$0")/.."
GLOB=${1:-*}
for d in seeded/$GLOB/; do
  id=$(basename $d)
  prop=$(python3 -c "import json,sys; print(json.load(open('$d/meta.json'))['property'])")
  out=$(tools/try_seed.sh /verif/$d/patch.diff $prop quick 2>&1)
  rc=$(echo "$out" | grep -o "exit=[0-9]*" | tail -1)
  nv=$(echo "$out" | grep -o "violations=[0-9]*" | tail -1)
  echo "$id $prop $rc $nv"
done
