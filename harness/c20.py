"""C20 — clamps, the Whalley-Wilmott band and small helpers follow their formulas."""
import torch

from harness.lib import Case
from harness import common as cm
from symtorch import api, facades
from symtorch.api import elem

META = {
    "stubs": [],
    "axioms": ["cbrt: c^3 = u, sign; sqrt: q>=0, q^2=u; cos/sin atoms by congruence; Black-Scholes delta/gamma terms as executed"],
    "assumptions": ["exact reals", "leaky clamp: 0 <= clamped_slope <= 1 (for slopes outside [0,1] maximum/minimum no longer select the documented branch)",
                    "Whalley-Wilmott: time to maturity > 0, volatility > 0, strike > 0, cost >= 0, a > 0"],
}


def clamp_oracle(x, lo, hi, slope, mode):
    """documented piecewise definition, elementwise; lo/hi may be None"""
    y = x
    if lo is not None:
        y = api.ite(api.lt(x, lo), lo + slope * (x - lo), y)
    if hi is not None:
        y = api.ite(api.gt(x, hi), hi + slope * (x - hi), y)
    if lo is not None and hi is not None:
        inv = (lo + hi) / 2 if mode == "mean" else hi
        y = api.ite(api.gt(lo, hi), inv, y)
    return y


def clamp_case(shape, bound_kind, via):
    from pfhedge.nn import functional as F
    from pfhedge.nn import Clamp, LeakyClamp

    def fn(c):
        x = api.tensor(c, "x", shape)
        if bound_kind == "tensor":
            lo, hi = api.tensor(c, "lo", shape), api.tensor(c, "hi", shape)
        elif bound_kind == "broadcast":
            lo, hi = api.tensor(c, "lo", shape[-1:]), api.tensor(c, "hi", (1,))
        else:
            lo, hi = api.real(c, "lo"), api.real(c, "hi")
        slope = api.real(c, "slope", lo=0, hi=1)

        def bound(b, idx):
            if b is None:
                return None
            if not isinstance(b, torch.Tensor):
                return b
            if tuple(b.shape) == tuple(shape):
                return elem(b, *idx)
            if b.shape == (1,):
                return elem(b, 0)
            return elem(b, idx[-1])

        import numpy as np

        for mode in ("mean", "max"):
            for sides in ("both", "min", "max", "none"):
                a = lo if sides in ("both", "min") else None
                b = hi if sides in ("both", "max") else None
                hard_ok = not (mode == "max" and sides == "none")  # torch.clamp itself rejects two missing bounds
                if via == "function":
                    outs = {"leaky": F.leaky_clamp(x, a, b, clamped_slope=slope, inverted_output=mode)}
                    if hard_ok:
                        outs["clamp"] = F.clamp(x, a, b, inverted_output=mode)
                else:
                    with facades.real_torch():
                        try:
                            cl = Clamp(inverted_output=mode)
                        except TypeError:
                            cl = None
                        lk = LeakyClamp(clamped_slope=slope, inverted_output=mode)
                    c.check("Clamp accepts inverted_output=%r" % mode, cl is not None)
                    outs = {"leaky": lk(x, a, b)}
                    if cl is not None and hard_ok:
                        outs["clamp"] = cl(x, a, b)
                for kind, out in outs.items():
                    c.check("%s/%s/%s shape" % (kind, mode, sides), tuple(out.shape) == tuple(shape))
                    s = 0 if kind == "clamp" else slope
                    for idx in np.ndindex(*shape):
                        want = clamp_oracle(elem(x, *idx), bound(a, idx), bound(b, idx), s, mode)
                        c.check("%s/%s/%s%s" % (kind, mode, sides, list(idx)), api.eq(elem(out, *idx), want))
        if via == "function":
            try:
                F.clamp(x, lo, hi, inverted_output="median")
                ok1 = False
            except ValueError:
                ok1 = True
            try:
                F.leaky_clamp(x, lo, hi, inverted_output="median")
                ok2 = False
            except ValueError:
                ok2 = True
            c.check("invalid inverted_output rejected", ok1 and ok2)
            idx = tuple(0 for _ in shape)
            c.control("control:inverted mean==max", api.eq(elem(F.clamp(x, lo, hi, inverted_output="mean"), *idx),
                                                          elem(F.clamp(x, lo, hi, inverted_output="max"), *idx)))
            c.control("control:leaky==hard", api.eq(elem(F.leaky_clamp(x, lo, hi, clamped_slope=slope), *idx), elem(F.clamp(x, lo, hi), *idx)))

    return fn


def ww_case(N, zero_cost=False):
    def fn(c):
        from pfhedge.instruments import BrownianStock, EuropeanOption
        from pfhedge.nn import WhalleyWilmott
        from pfhedge.nn.functional import ww_width

        K = api.real(c, "K", pos=True)
        cost = 0.0 if zero_cost else api.real(c, "cost", nonneg=True)
        a = api.real(c, "a", pos=True)
        with facades.real_torch():
            d = EuropeanOption(BrownianStock(cost=cost), strike=K)
            m = WhalleyWilmott(d, a=a)
        s = api.tensor(c, "s", (N, 1, 1))
        t = api.tensor(c, "t", (N, 1, 1), pos=True)
        v = api.tensor(c, "v", (N, 1, 1), pos=True)
        prev = api.tensor(c, "prev", (N, 1, 1))
        inp = torch.cat([s, t, v, prev], dim=-1)
        before = inp.clone()
        out = m(inp)
        c.check("ww shape", tuple(out.shape) == (N, 1, 1))
        c.check("forward leaves the caller's feature tensor untouched", api.tensor_eq(inp, before))
        c.check("a second evaluation on the same tensor gives the same hedge", api.tensor_eq(m(inp), out))
        delta = m.bs.delta(s, t, v)
        gamma = m.bs.gamma(s, t, v)
        w_code = m.width(inp[..., :-1])
        for n in range(N):
            dl, gm, pv = elem(delta, n, 0, 0), elem(gamma, n, 0, 0), elem(prev, n, 0, 0)
            S = K * api.exp(elem(s, n, 0, 0))
            w = api.cbrt(3 * cost * gm * gm * S / (2 * a)) if not zero_cost else 0
            c.check("width formula[%d]" % n, api.eq(elem(w_code, n, 0, 0), w))
            if not zero_cost:
                wc = elem(w_code, n, 0, 0)
                c.check("width cubed[%d]" % n, api.all_(api.ge(wc, 0), api.eq(wc * wc * wc, 3 * cost * gm * gm * S / (2 * a))))
            want = api.ite(api.le(api.absv(pv - dl), w), pv, api.ite(api.lt(pv, dl - w), dl - w, dl + w))
            c.check("band rule[%d]" % n, api.eq(elem(out, n, 0, 0), want))
            if zero_cost:
                c.check("zero cost => delta hedge[%d]" % n, api.eq(elem(out, n, 0, 0), dl))
        if not zero_cost:
            c.control("control:always delta", api.eq(elem(out, 0, 0, 0), elem(delta, 0, 0, 0)))
            S0 = api.exp(elem(s, 0, 0, 0))
            gm0 = elem(gamma, 0, 0, 0)
            c.control("control:width without strike", api.eq(elem(w_code, 0, 0, 0), api.cbrt(3 * cost * gm0 * gm0 * S0 / (2 * a))))
        g2 = api.tensor(c, "g2", (2,))
        s2 = api.tensor(c, "s2", (2,), pos=True)
        ww = ww_width(g2, s2, cost if not zero_cost else api.real(c, "c2", nonneg=True), a)
        cc = cost if not zero_cost else api.real(c, "c2", nonneg=True)
        for i in range(2):
            wi = elem(ww, i)
            c.check("ww_width[%d]" % i, api.all_(api.ge(wi, 0), api.eq(wi * wi * wi, cc * 3 * elem(g2, i) * elem(g2, i) * elem(s2, i) / (2 * a))))

    return fn


def helpers_case():
    from pfhedge.nn import functional as F
    from pfhedge.nn import SVIVariance

    def fn(c):
        k = api.tensor(c, "k", (3,))
        a, b, rho, m = (api.real(c, n) for n in ("a", "b", "rho", "m"))
        sg = api.real(c, "sigma")
        out = F.svi_variance(k, a, b, rho, m, sg)
        with facades.real_torch():
            mod = SVIVariance(a, b, rho, m, sg)
        out2 = mod(k)
        for i in range(3):
            km = elem(k, i) - m
            want = a + b * (rho * km + api.sqrt(km * km + sg * sg))
            c.check("svi[%d]" % i, api.eq(elem(out, i), want))
            c.check("SVIVariance[%d]" % i, api.eq(elem(out2, i), want))
        c.control("control:svi without rho term", api.eq(elem(out, 0), a + b * api.sqrt((elem(k, 0) - m) * (elem(k, 0) - m) + sg * sg)))
        # bilinear interpolation
        xs = [api.tensor(c, "x%d" % i, (2,)) for i in range(4)]
        w1t, w2t = api.tensor(c, "w1", (2,)), api.tensor(c, "w2", (2,))
        w1s, w2s = api.real(c, "w1s"), api.real(c, "w2s")
        for tag, w1, w2 in (("tensor", w1t, w2t), ("scalar", w1s, w2s)):
            o = F.bilerp(xs[0], xs[1], xs[2], xs[3], w1, w2)
            for i in range(2):
                a1 = elem(w1, i) if tag == "tensor" else w1
                a2 = elem(w2, i) if tag == "tensor" else w2
                want = ((1 - a1) * (1 - a2) * elem(xs[0], i) + a1 * (1 - a2) * elem(xs[1], i)
                        + (1 - a1) * a2 * elem(xs[2], i) + a1 * a2 * elem(xs[3], i))
                c.check("bilerp/%s[%d]" % (tag, i), api.eq(elem(o, i), want))
        c.control("control:bilerp swapped corners", api.eq(elem(F.bilerp(xs[0], xs[1], xs[2], xs[3], w1t, w2t), 0),
                                                           elem(F.bilerp(xs[0], xs[2], xs[1], xs[3], w1t, w2t), 0)))
        # Box-Muller
        u1 = api.tensor(c, "u1", (2,), lo=0, hi=1)
        u2 = api.tensor(c, "u2", (2,), lo=0, hi=1)
        z0, z1 = F.box_muller(u1, u2)
        eps = 1e-10
        for i in range(2):
            r = api.sqrt(-2 * api.log(api.maxv(elem(u1, i), eps)))
            ang = 2 * api.PI(c) * elem(u2, i)
            c.check("box_muller cos[%d]" % i, api.eq(elem(z0, i), r * api.cos(ang)))
            c.check("box_muller sin[%d]" % i, api.eq(elem(z1, i), r * api.sin(ang)))
            c.check("box_muller radius[%d]" % i, api.eq(elem(z0, i) * elem(z0, i) + elem(z1, i) * elem(z1, i),
                                                        -2 * api.log(api.maxv(elem(u1, i), eps))))
        c.control("control:box_muller swapped", api.eq(elem(z0, 0), api.sqrt(-2 * api.log(api.maxv(elem(u1, 0), eps))) * api.sin(2 * api.PI(c) * elem(u2, 0))))
        # realized volatility
        S = api.tensor(c, "S", (2, 4), pos=True)
        dt = api.real(c, "dt", pos=True)
        rv, rvol = F.realized_variance(S, dt), F.realized_volatility(S, dt)
        for n in range(2):
            c.check("realized_volatility^2[%d]" % n, api.all_(api.ge(elem(rvol, n), 0), api.eq(elem(rvol, n) * elem(rvol, n), elem(rv, n))))

    return fn


def cases():
    cs = []
    enc = ("leaky_clamp", "clamp", "LeakyClamp.forward", "Clamp.forward", "WhalleyWilmott.forward/width", "ww_width", "svi_variance",
           "SVIVariance.forward", "bilerp", "box_muller", "realized_variance", "realized_volatility")
    for bk in ("tensor", "scalar", "broadcast"):
        for via in ("function", "module"):
            cs.append(Case("clamp/%s/%s" % (bk, via), clamp_case((2, 2) if bk != "scalar" else (2,), bk, via), encodes=enc,
                           bounds="tensor %s, all real input/bounds, slope in [0,1], both inverted_output modes, one-sided bounds" %
                           ("(2,2)" if bk != "scalar" else "(2,)")))
    cs.append(Case("ww/european", ww_case(1), encodes=enc, bounds="N=1, all s, t>0, v>0, K>0, cost>=0, a>0", timeout=60))
    cs.append(Case("ww/european/zero-cost", ww_case(1, zero_cost=True), encodes=enc, bounds="N=1, cost=0", timeout=60))
    cs.append(Case("ww/european/N2", ww_case(2), tier="thorough", encodes=enc, bounds="N=2", timeout=300))
    cs.append(Case("helpers", helpers_case(), encodes=enc, bounds="tensors of 2-4 elements, all real parameters", timeout=60))
    return cs
