"""Environment substitution for a symbolic (or concrete replay) run: tensor factories, randomness,
`math` functions on symbolic scalars.  Everything is patched in the check process only and
restored afterwards; /repo is not edited."""
from __future__ import annotations

import contextlib
import math

import numpy as np
import torch

from . import ctx as cx
from . import elem as el
from . import tensor as st
from . import terms as tm
from .ctx import EngineUnsupported, SymBool, SymInt, SymReal

_ORIG = {}
_DEPTH = [0]


def _has_sym(x):
    if isinstance(x, (st.SymTensor, SymReal, SymBool)):
        return True
    if isinstance(x, (list, tuple)):
        return any(_has_sym(i) for i in x)
    return False


def _size_args(size):
    if len(size) == 1 and isinstance(size[0], (tuple, list, torch.Size)):
        size = tuple(size[0])
    return tuple(int(s) for s in size)


def f_tensor(data, *a, dtype=None, device=None, requires_grad=False, **kw):
    if _has_sym(data):
        if isinstance(data, st.SymTensor):
            r = st.SymTensor(data._p.copy(), dtype or data.dtype)
            if cx.CUR is not None and cx.CUR.env.get("track_grad"):
                from . import autograd as ag

                ag.cut_inplace(r)  # torch.tensor(t) copy-constructs: the result is detached from t's graph
            r._nocut = True
        else:
            r = st.SymTensor(st._objarr(data), dtype)
        if requires_grad:
            r.requires_grad_()
        return r
    if _mode() == "sym" and cx.CUR.env.get("lift_tensor", True) and not _caller_is_torch():
        # lift Python numbers exactly (no float32 round trip) -- see DESIGN C01 "Out"
        if isinstance(data, (int, float, list, tuple)) and not isinstance(data, bool):
            try:
                r = st.SymTensor(st._objarr(data), dtype)
                if requires_grad:
                    r.requires_grad_()
                return r
            except Exception:
                pass
    return _ORIG["tensor"](data, *a, dtype=dtype, device=device, requires_grad=requires_grad, **kw)


def f_as_tensor(data, dtype=None, device=None):
    if isinstance(data, st.SymTensor):
        return data if dtype is None else data.to(dtype)
    if _has_sym(data):
        return st.SymTensor(st._objarr(data), dtype)
    return _ORIG["as_tensor"](data, dtype=dtype, device=device)


def _mode():
    if cx.CUR is None or cx.CUR.env.get("facade_off"):
        return None
    return cx.CUR.mode


def _caller_is_torch(depth=2):
    """factory calls made by torch's own Python code (module initialisation, lazy materialisation, ...) keep real torch"""
    import sys

    try:
        name = sys._getframe(depth).f_globals.get("__name__", "")
    except ValueError:
        return False
    return name.startswith("torch.") or name == "torch"


@contextlib.contextmanager
def real_torch():
    """Temporarily switch the factories back to real torch (to build real modules in a run)."""
    c = cx.CUR
    old = c.env.get("facade_off")
    c.env["facade_off"] = True
    try:
        yield
    finally:
        c.env["facade_off"] = old


def f_empty(*size, dtype=None, device=None, **kw):
    if _mode() == "sym" and not _caller_is_torch():
        return st.fresh_tensor(_size_args(size), "uninit", dtype)
    return _ORIG["empty"](tuple(_size_args(size)), dtype=dtype, device=device, **kw)


def _const_factory(name, value):
    def f(*size, dtype=None, device=None, **kw):
        if _mode() == "sym" and not _caller_is_torch():
            return st._full(_size_args(size), value, dtype)
        return _ORIG[name](tuple(_size_args(size)), dtype=dtype, device=device, **kw)

    return f


def f_full(size, fill_value, dtype=None, device=None, **kw):
    if (_mode() == "sym" and not _caller_is_torch()) or _has_sym(fill_value):
        return st._full(_size_args((size,)), fill_value, dtype)
    return _ORIG["full"](size, fill_value, dtype=dtype, device=device, **kw)


def _concrete_draw(base, shape, dtype, default):
    c = cx.CUR
    c.rng_counter += 1
    k = c.rng_counter
    out = _ORIG["empty"](tuple(shape), dtype=dtype or torch.float64)
    for idx in np.ndindex(*shape):
        name = "%s#%d[%s]" % (base, k, ",".join(map(str, idx)))
        v = c.values.get(name)
        out[idx] = float(v) if v is not None else default(name)
    c.env.setdefault("draws", {}).setdefault(base, []).append(out)
    return out


def _hash01(name):
    import zlib

    return (zlib.crc32(name.encode()) % 10007) / 10007.0


def f_randn(*size, dtype=None, device=None, **kw):
    shape = _size_args(size)
    if _mode() == "sym":
        return st.fresh_tensor(shape, "z", dtype)
    if _mode() == "concrete":
        return _concrete_draw("z", shape, dtype, lambda n: 2 * _hash01(n) - 1)
    return _ORIG["randn"](*shape, dtype=dtype, device=device, **kw)


def f_rand(*size, dtype=None, device=None, **kw):
    shape = _size_args(size)
    if _mode() == "sym":
        def con(v):
            t = el.value_term(v)
            cx.CUR.assumptions.append(tm.ge(t, tm.ZERO))
            cx.CUR.assumptions.append(tm.lt(t, tm.ONE))

        return st.fresh_tensor(shape, "u", dtype, con)
    if _mode() == "concrete":
        return _concrete_draw("u", shape, dtype, _hash01)
    return _ORIG["rand"](*shape, dtype=dtype, device=device, **kw)


def f_randn_like(a, dtype=None, **kw):
    if _mode() == "concrete" and not isinstance(a, st.SymTensor):
        return _concrete_draw("z", tuple(a.shape), dtype or a.dtype, lambda n: 2 * _hash01(n) - 1)
    return _ORIG["randn_like"](a, dtype=dtype, **kw)


def f_rand_like(a, dtype=None, **kw):
    if _mode() == "concrete" and not isinstance(a, st.SymTensor):
        return _concrete_draw("u", tuple(a.shape), dtype or a.dtype, _hash01)
    return _ORIG["rand_like"](a, dtype=dtype, **kw)


def f_randperm(*a, **kw):
    if _mode() == "sym":
        raise EngineUnsupported("randperm (random shuffles are outside the model)")
    return _ORIG["randperm"](*a, **kw)


def _poisson_sample(self, sample_shape=torch.Size()):
    c = cx.CUR
    shape = tuple(sample_shape) + tuple(self.rate.shape if isinstance(self.rate, torch.Tensor) else ())
    shape = tuple(int(x) for x in shape)
    if c is not None and c.mode == "sym":
        mx = c.env.get("max_jumps", 0)
        if mx == 0:
            return st._full(shape, 0, None)

        def con(v):
            t = el.value_term(v)
            c.assumptions.append(tm.or_(*[tm.eq(t, tm.const(k)) for k in range(mx + 1)]))

        return st.fresh_tensor(shape, "nj", None, con)
    if c is not None and c.mode == "concrete":
        return _concrete_draw("nj", shape, torch.float64, lambda n: 0.0)
    return _ORIG["poisson_sample"](self, sample_shape)


def _exponential_sample(self, sample_shape=torch.Size()):
    c = cx.CUR
    shape = tuple(sample_shape)
    if c is not None and c.mode == "sym":
        def con(v):
            c.assumptions.append(tm.gt(el.value_term(v), tm.ZERO))

        return st.fresh_tensor(shape, "ex", None, con)
    if c is not None and c.mode == "concrete":
        return _concrete_draw("ex", shape, torch.float64, lambda n: 0.01 + _hash01(n) * 0.05)
    return _ORIG["exponential_sample"](self, sample_shape)


def _uniform_sample(self, sample_shape=torch.Size()):
    c = cx.CUR
    shape = tuple(sample_shape)
    if c is not None and c.mode == "sym":
        def con(v):
            t = el.value_term(v)
            c.assumptions.append(tm.ge(t, tm.ZERO))
            c.assumptions.append(tm.lt(t, tm.ONE))

        return st.fresh_tensor(shape, "u", None, con)
    if c is not None and c.mode == "concrete":
        return _concrete_draw("u", shape, torch.float64, _hash01)
    return _ORIG["uniform_sample"](self, sample_shape)


def _mvn_sample(self, sample_shape=torch.Size()):
    c = cx.CUR
    shape = tuple(sample_shape) + tuple(self.loc.shape)
    if c is not None and c.mode == "sym":
        return st.fresh_tensor(shape, "mvn", None)
    if c is not None and c.mode == "concrete":
        return _concrete_draw("mvn", shape, torch.float64, lambda n: (2 * _hash01(n) - 1) * 0.05)
    return _ORIG["mvn_sample"](self, sample_shape)


def _loose_init(cls_name):
    """Distribution constructors that accept symbolic scalar parameters (only .sample is used, and it is stubbed)."""

    def init(self, *args, validate_args=None, **kw):
        names = {"Poisson": ("rate",), "Exponential": ("rate",)}[cls_name]
        vals = dict(zip(names, args))
        vals.update(kw)
        if any(isinstance(v, (SymReal, st.SymTensor)) for v in vals.values()):
            for k, v in vals.items():
                object.__setattr__(self, k, v)
            object.__setattr__(self, "_batch_shape", torch.Size())
            object.__setattr__(self, "_event_shape", torch.Size())
            return
        return _ORIG[cls_name + ".__init__"](self, *args, validate_args=validate_args, **kw)

    return init


def _math_fn(name, sym_impl):
    orig = getattr(math, name)

    def f(x, *rest):
        if isinstance(x, st.SymTensor):
            x = x.item()
        if isinstance(x, SymReal):
            return sym_impl(x, *rest)
        return orig(x, *rest)

    f.__name__ = name
    return f, orig


def _log10_stub(x):
    """int(math.log10(spread)) in quadratic_cvar: the decade is fixed by the harness (env['log10_decade'] = d) and the
    corresponding range 10^d <= x < 10^(d+1) is *assumed*; the returned float only feeds int()."""
    c = cx.CUR
    d = c.env.get("log10_decade")
    if d is None:
        raise EngineUnsupported("math.log10 of a symbolic value without a declared decade")
    from fractions import Fraction

    c.assume(tm.ge(x.t, tm.const(Fraction(10) ** d)))
    c.assume(tm.lt(x.t, tm.const(Fraction(10) ** (d + 1))))
    c.note("math.log10(symbolic) stubbed: decade %d assumed" % d)
    return d + 0.5


_MATH = {
    "log10": _log10_stub,
    "exp": lambda x: SymReal(tm.exp(x.t)),
    "log": lambda x, *b: SymReal(cx.slog(x.t)) if not b else SymReal(cx._sdiv(cx.slog(x.t), cx.slog(cx._t(b[0])))),
    "sqrt": lambda x: SymReal(cx.ssqrt(x.t)),
}


_FUNC_NAMES = ["full_like", "zeros_like", "ones_like", "clamp", "clip", "where", "lerp", "maximum", "minimum",
               "add", "sub", "mul", "div", "pow", "stack", "cat", "exp", "log", "sqrt", "abs", "max", "min",
               "sum", "mean", "amax", "amin", "cumsum", "cumprod", "prod", "logsumexp", "erf", "cos", "sin",
               "broadcast_tensors", "flip", "square", "relu", "quantile", "topk", "sort", "diff", "isnan",
               "isfinite", "isinf", "all", "any", "logical_and", "logical_or", "logical_not", "transpose",
               "unsqueeze", "squeeze", "flatten", "reshape", "matmul"]


def _any_sym(args, kwargs):
    for x in list(args) + list(kwargs.values()):
        if isinstance(x, (st.SymTensor, SymReal, SymBool)):
            return True
        if isinstance(x, (list, tuple)) and any(isinstance(y, (st.SymTensor, SymReal, SymBool)) for y in x):
            return True
    return False


def _func_facade(name, orig):
    h = st.HANDLERS[name]

    def f(*args, **kwargs):
        if _any_sym(args, kwargs):
            st.USED.add(name)
            return st._post(h(*args, **kwargs))
        return orig(*args, **kwargs)

    f.__name__ = name
    f.__wrapped__ = orig
    return f


def _swap_default_engines(old, new):
    """`engine=torch.randn` default arguments were bound at import time: point them at `new`"""
    import inspect

    n = 0
    try:
        import pfhedge.instruments as PI
        import pfhedge.stochastic as PS
    except Exception:  # noqa: BLE001
        return 0
    objs = [getattr(PS, k) for k in dir(PS)] + [getattr(getattr(PI, k), "__init__", None) for k in dir(PI)]
    for f in objs:
        if not inspect.isfunction(f):
            continue
        if f.__defaults__ and any(d is old for d in f.__defaults__):
            f.__defaults__ = tuple(new if d is old else d for d in f.__defaults__)
            n += 1
        if f.__kwdefaults__:
            for k, d in list(f.__kwdefaults__.items()):
                if d is old:
                    f.__kwdefaults__[k] = new
                    n += 1
    return n


@contextlib.contextmanager
def patched():
    """Install the facades (re-entrant: nested uses are no-ops)."""
    if _DEPTH[0] > 0:
        _DEPTH[0] += 1
        try:
            yield
        finally:
            _DEPTH[0] -= 1
        return
    _DEPTH[0] = 1
    names = ["tensor", "as_tensor", "empty", "zeros", "ones", "full", "randn", "rand", "randn_like",
             "rand_like", "randperm"]
    for n in names:
        _ORIG[n] = getattr(torch, n)
    _ORIG["poisson_sample"] = torch.distributions.poisson.Poisson.sample
    _ORIG["exponential_sample"] = torch.distributions.exponential.Exponential.sample
    _ORIG["uniform_sample"] = torch.distributions.uniform.Uniform.sample
    _ORIG["mvn_sample"] = torch.distributions.multivariate_normal.MultivariateNormal.sample
    _ORIG["Poisson.__init__"] = torch.distributions.poisson.Poisson.__init__
    _ORIG["Exponential.__init__"] = torch.distributions.exponential.Exponential.__init__
    math_orig = {}
    try:
        torch.tensor = f_tensor
        torch.as_tensor = f_as_tensor
        torch.empty = f_empty
        torch.zeros = _const_factory("zeros", 0)
        torch.ones = _const_factory("ones", 1)
        torch.full = f_full
        torch.randn = f_randn
        torch.rand = f_rand
        torch.randn_like = f_randn_like
        torch.rand_like = f_rand_like
        torch.randperm = f_randperm
        torch.distributions.poisson.Poisson.sample = _poisson_sample
        torch.distributions.exponential.Exponential.sample = _exponential_sample
        torch.distributions.uniform.Uniform.sample = _uniform_sample
        torch.distributions.multivariate_normal.MultivariateNormal.sample = _mvn_sample
        torch.distributions.poisson.Poisson.__init__ = _loose_init("Poisson")
        torch.distributions.exponential.Exponential.__init__ = _loose_init("Exponential")
        for n, impl in _MATH.items():
            f, orig = _math_fn(n, impl)
            math_orig[n] = orig
            setattr(math, n, f)
        for n in _FUNC_NAMES:
            if n in st.HANDLERS and hasattr(torch, n):
                _ORIG["fn:" + n] = getattr(torch, n)
                setattr(torch, n, _func_facade(n, _ORIG["fn:" + n]))
        swapped = _swap_default_engines(_ORIG["randn"], f_randn)
        _ORIG["fn:F.relu"] = torch.nn.functional.relu
        torch.nn.functional.relu = _func_facade("relu", _ORIG["fn:F.relu"])
        yield
    finally:
        _DEPTH[0] = 0
        try:
            _swap_default_engines(f_randn, _ORIG["randn"])
        except Exception:  # noqa: BLE001
            pass
        for n in names:
            setattr(torch, n, _ORIG[n])
        for n in _FUNC_NAMES:
            if "fn:" + n in _ORIG:
                setattr(torch, n, _ORIG["fn:" + n])
        if "fn:F.relu" in _ORIG:
            torch.nn.functional.relu = _ORIG["fn:F.relu"]
        torch.distributions.poisson.Poisson.sample = _ORIG["poisson_sample"]
        torch.distributions.exponential.Exponential.sample = _ORIG["exponential_sample"]
        torch.distributions.uniform.Uniform.sample = _ORIG["uniform_sample"]
        torch.distributions.multivariate_normal.MultivariateNormal.sample = _ORIG["mvn_sample"]
        torch.distributions.poisson.Poisson.__init__ = _ORIG["Poisson.__init__"]
        torch.distributions.exponential.Exponential.__init__ = _ORIG["Exponential.__init__"]
        for n, orig in math_orig.items():
            setattr(math, n, orig)
