"""Run context: assumptions, path condition, definedness side conditions, goals, path explorer,
symbolic scalars.  One context per explored path; `explore` re-executes the harness with a
recorded decision prefix (replay-based forking, depth first)."""
from __future__ import annotations

import math
from fractions import Fraction
from typing import Callable, List, Optional

from . import smt
from . import terms as tm
from .terms import T

CUR: Optional["Ctx"] = None


class EngineUnsupported(Exception):
    """An operation the symbolic engine has no model for: the run is inconclusive."""


class ExplorationBound(Exception):
    """A fork / path / integer-span bound was hit: the exploration is incomplete."""


class Goal:
    __slots__ = ("name", "term", "kind", "path", "side", "info")

    def __init__(self, name, term, kind, path, side, info=None):
        self.name = name
        self.term = term
        self.kind = kind  # 'check' | 'control'
        self.path = path
        self.side = side
        self.info = info


class Ctx:
    def __init__(self, prefix=None, mode="sym", values=None, xmode=False, max_decisions=400,
                 decide_timeout=10.0, check_side=False):
        self.mode = mode  # 'sym' | 'concrete'
        self.values = values or {}  # concrete mode: name -> float
        self.xmode = xmode
        self.assumptions: List[T] = []
        self.path: List[T] = []
        self.side: List[T] = []  # definedness side conditions (assumed unless check_side)
        self.check_side = check_side
        self.defs = {}  # leaf var -> defining term
        self.stopgrad = set()  # leaf vars that autograd does not see through
        self.goals: List[Goal] = []
        self.prefix = list(prefix or [])
        self.log: List[list] = []  # [value, forced]
        self.max_decisions = max_decisions
        self.decide_timeout = decide_timeout
        self.fresh_counter = 0
        self.notes: List[str] = []
        self.inputs = {}  # name -> shape (for model extraction / replay)
        self.rng_counter = 0
        self.grad_leaves = []  # SymTensors that are autograd leaves requiring grad
        self.sinks = 0
        self.env = {}  # free-form per-run storage for stubs
        self.assume_failed: List[str] = []  # concrete mode: assumptions the replayed inputs do not satisfy

    # -- naming -------------------------------------------------------------------------
    def fresh(self, base="t") -> T:
        self.fresh_counter += 1
        return tm.var("%s!%d" % (base, self.fresh_counter))

    # -- assumptions / goals --------------------------------------------------------------
    def assume(self, cond):
        if self.mode == "concrete":
            # a replayed input must lie in the assumed domain: a run outside it reproduces nothing
            if isinstance(cond, bool) or hasattr(cond, "holds"):
                if not bool(cond):
                    self.assume_failed.append(str(getattr(cond, "detail", "")) or "assumption")
            return
        cond = _as_term(cond)
        self.assumptions.append(cond)

    def hyps(self) -> List[T]:
        h = list(self.assumptions) + list(self.path)
        if not self.check_side:
            h += self.side
        h += [tm.eq(v, d) for v, d in self.defs.items()]
        return h

    def check(self, name, cond, info=None):
        if self.mode == "concrete":
            self.goals.append(Goal(name, cond, "check", [], [], info))
            return
        self.goals.append(Goal(name, _as_term(cond), "check", list(self.path), list(self.side), info))

    def control(self, name, cond, info=None):
        """A deliberately wrong claim: must come back sat (and replayable)."""
        if self.mode == "concrete":
            self.goals.append(Goal(name, cond, "control", [], [], info))
            return
        self.goals.append(Goal(name, _as_term(cond), "control", list(self.path), list(self.side), info))

    def side_condition(self, cond: T, what=""):
        if cond is tm.TRUE:
            return
        if self.check_side:
            self.goals.append(Goal("defined:" + what, cond, "check", list(self.path), list(self.side)))
        self.side.append(cond)

    def note(self, s):
        self.notes.append(s)

    # -- decisions --------------------------------------------------------------------------
    def decide(self, cond) -> bool:
        if self.mode == "concrete":
            return bool(cond)
        if cond is tm.TRUE:
            return True
        if cond is tm.FALSE:
            return False
        pos = len(self.log)
        if pos >= self.max_decisions:
            raise ExplorationBound("more than %d decisions on one path" % self.max_decisions)
        if pos < len(self.prefix):
            val, forced = self.prefix[pos]
            self.log.append([val, forced])
            if not forced:
                self.path.append(cond if val else tm.not_(cond))
            return val
        h = self.hyps()
        # cheap first: non-linear monomials and special functions opaque (sound for 'unsat')
        if smt.solve(h + [cond], timeout_s=3.0, want_model=False, linearize=True).status == "unsat":
            self.log.append([False, True])
            return False
        if smt.solve(h + [tm.not_(cond)], timeout_s=3.0, want_model=False, linearize=True).status == "unsat":
            self.log.append([True, True])
            return True
        r_true = smt.solve(h + [cond], timeout_s=self.decide_timeout, want_model=False)
        if r_true.status == "unsat":
            self.log.append([False, True])
            return False
        r_false = smt.solve(h + [tm.not_(cond)], timeout_s=self.decide_timeout, want_model=False)
        if r_false.status == "unsat":
            self.log.append([True, True])
            return True
        # both feasible (or undecided): fork, True first
        self.log.append([True, False])
        self.path.append(cond)
        return True

    def concretize_int(self, term: T, max_span=16) -> int:
        if term.op == "const":
            assert term.val.denominator == 1
            return int(term.val)
        for _ in range(max_span):
            r = smt.solve(self.hyps(), timeout_s=self.decide_timeout)
            if r.status != "sat":
                raise ExplorationBound("cannot find a feasible value for %s (%s)" % (term, r.status))
            # evaluate term under the model
            ex = r.export
            ab = smt.Abstraction()
            v = r.z3model.eval(ex.conv(ab.run(term)), model_completion=True)
            k = smt._val_to_fraction(v)
            if k is None:
                raise ExplorationBound("no value for integer term")
            k = int(math.floor(k))
            if self.decide(tm.eq(term, tm.const(k))):
                return k
        raise ExplorationBound("integer term ranges over more than %d values" % max_span)


def _as_term(x) -> T:
    if isinstance(x, T):
        return x
    if isinstance(x, (SymBool, SymReal)):
        return x.t
    if isinstance(x, bool):
        return tm.TRUE if x else tm.FALSE
    if hasattr(x, "holds"):  # api.Rel produced by a structural mismatch (e.g. shapes)
        return tm.TRUE if x.holds else tm.FALSE
    if hasattr(x, "_p"):  # SymTensor of one element
        import numpy as np

        p = np.asarray(x._p).reshape(-1)
        if len(p) == 1:
            return p[0]
        return tm.and_(*list(p))
    return tm.const(x)


# ---------------------------------------------------------------------------------------
# path exploration
# ---------------------------------------------------------------------------------------


def explore(fn: Callable[[Ctx], object], max_paths=64, **ctx_kw):
    """Run fn(ctx) once per feasible path.  Yields (ctx, outcome) with outcome =
    ('ok', result) or ('exc', exception)."""
    prefix: list = []
    n = 0
    global CUR
    while True:
        n += 1
        if n > max_paths:
            raise ExplorationBound("more than %d paths" % max_paths)
        ctx = Ctx(prefix=prefix, **ctx_kw)
        old = CUR
        CUR = ctx
        try:
            try:
                res = fn(ctx)
                outcome = ("ok", res)
            except (EngineUnsupported, ExplorationBound):
                raise
            except Exception as e:  # the code under test raised
                outcome = ("exc", e)
        finally:
            CUR = old
        yield ctx, outcome
        log = [list(x) for x in ctx.log]
        while log and (log[-1][1] or log[-1][0] is False):
            log.pop()
        if not log:
            return
        log[-1] = [False, False]
        prefix = [tuple(x) for x in log]
        # mark: a decision replayed as False after True is exhausted when popped (value False)


# ---------------------------------------------------------------------------------------
# symbolic scalars
# ---------------------------------------------------------------------------------------


def _t(x) -> T:
    if isinstance(x, (SymReal, SymInt)):
        return x.t
    if isinstance(x, SymBool):
        return tm.ite(x.t, tm.ONE, tm.ZERO)
    if isinstance(x, T):
        return x
    if hasattr(x, "_p"):
        import numpy as np

        p = np.asarray(x._p)
        if p.size == 1:
            return p.reshape(-1)[0]
        return NotImplemented
    if isinstance(x, (int, float, Fraction, bool)):
        return tm.const(x)
    return NotImplemented


def _is_tensor(o):
    import torch

    return isinstance(o, torch.Tensor) and not (hasattr(o, "_p") and o._p.size == 1 and o._p.ndim == 0 and False)


def _tensor_op(f, a, b):
    """scalar (op) tensor: delegate to the tensor handlers"""
    from . import tensor as st

    h = {tm.add: st.h_add, tm.sub: st.h_sub, tm.mul: st.h_mul, _sdiv: st.h_div}.get(f)
    if h is None:
        return NotImplemented
    return h(a, b)


class SymBool:
    __slots__ = ("t",)

    def __init__(self, t):
        self.t = t

    def __bool__(self):
        if CUR is None:
            raise EngineUnsupported("bool() of a symbolic value outside a run")
        return CUR.decide(self.t)

    def __and__(self, o):
        return SymBool(tm.and_(self.t, _as_term(o)))

    __rand__ = __and__

    def __or__(self, o):
        return SymBool(tm.or_(self.t, _as_term(o)))

    __ror__ = __or__

    def __invert__(self):
        return SymBool(tm.not_(self.t))

    def __repr__(self):
        return "SymBool(%s)" % self.t


class SymReal:
    __slots__ = ("t",)
    __array_priority__ = 1000

    def __init__(self, t):
        self.t = tm.const(t) if not isinstance(t, T) else t

    def _bin(self, o, f):
        if _is_tensor(o):
            return _tensor_op(f, self, o)
        b = _t(o)
        if b is NotImplemented:
            return NotImplemented
        return SymReal(f(self.t, b))

    def _rbin(self, o, f):
        if _is_tensor(o):
            return _tensor_op(f, o, self)
        b = _t(o)
        if b is NotImplemented:
            return NotImplemented
        return SymReal(f(b, self.t))

    def __add__(self, o):
        return self._bin(o, tm.add)

    def __radd__(self, o):
        return self._rbin(o, tm.add)

    def __sub__(self, o):
        return self._bin(o, tm.sub)

    def __rsub__(self, o):
        return self._rbin(o, tm.sub)

    def __mul__(self, o):
        return self._bin(o, tm.mul)

    def __rmul__(self, o):
        return self._rbin(o, tm.mul)

    def __truediv__(self, o):
        return self._bin(o, _sdiv)

    def __rtruediv__(self, o):
        return self._rbin(o, _sdiv)

    def __neg__(self):
        return SymReal(tm.neg(self.t))

    def __pos__(self):
        return self

    def __abs__(self):
        return SymReal(tm.abs_(self.t))

    def __pow__(self, e):
        return SymReal(spow(self.t, e))

    def __rpow__(self, b):
        # b ** self = exp(self * log b)
        bt = _t(b)
        return SymReal(tm.exp(tm.mul(self.t, slog(bt))))

    def __mod__(self, o):
        b = _t(o)
        return SymReal(tm.sub(self.t, tm.mul(b, tm.floor(_sdiv(self.t, b)))))

    def __floordiv__(self, o):
        return SymInt(tm.floor(_sdiv(self.t, _t(o))))

    def __lt__(self, o):
        return SymBool(tm.lt(self.t, _t(o)))

    def __le__(self, o):
        return SymBool(tm.le(self.t, _t(o)))

    def __gt__(self, o):
        return SymBool(tm.gt(self.t, _t(o)))

    def __ge__(self, o):
        return SymBool(tm.ge(self.t, _t(o)))

    def __eq__(self, o):
        b = _t(o)
        if b is NotImplemented:
            return False
        return SymBool(tm.eq(self.t, b))

    def __ne__(self, o):
        b = _t(o)
        if b is NotImplemented:
            return True
        return SymBool(tm.ne(self.t, b))

    def __hash__(self):
        return hash(self.t)

    def __ceil__(self):
        return SymInt(tm.ceil(self.t))

    def __floor__(self):
        return SymInt(tm.floor(self.t))

    def __float__(self):
        if self.t.op == "const":
            return float(self.t.val)
        if CUR is not None and CUR.env.get("float_sink_ok"):
            # declared sink site (progress-bar text): the placeholder does not flow back into tensors
            CUR.sinks += 1
            return 0.0
        raise EngineUnsupported("float() of a symbolic real")

    def __int__(self):
        # truncation toward zero; the integer is concretised by forking over its feasible values
        if CUR is None:
            raise EngineUnsupported("int() of a symbolic real outside a run")
        tr = tm.ite(tm.ge(self.t, tm.ZERO), tm.floor(self.t), tm.ceil(self.t))
        return CUR.concretize_int(tr)

    def __trunc__(self):
        return self.__int__()

    def __round__(self, n=None):
        if n is not None:
            raise EngineUnsupported("round() of a symbolic real to digits")
        # Python rounds half to even: floor(x + 1/2), minus one when x is exactly half-way and that floor is odd
        from fractions import Fraction

        f = tm.floor(tm.add(self.t, tm.const(Fraction(1, 2))))
        half = tm.eq(tm.sub(tm.add(self.t, tm.const(Fraction(1, 2))), f), tm.ZERO)
        odd = tm.ne(tm.scale(tm.floor(tm.scale(f, Fraction(1, 2))), 2), f)
        return SymInt(tm.ite(tm.and_(half, odd), tm.sub(f, tm.ONE), f))

    def __bool__(self):
        return bool(SymBool(tm.ne(self.t, tm.ZERO)))

    def __repr__(self):
        return "SymReal(%s)" % self.t

    def __format__(self, spec):
        return repr(self)

    # a few tensor-like conveniences so that code written for 0-dim tensors works
    def item(self):
        return self

    def sqrt(self):
        return SymReal(ssqrt(self.t))

    def exp(self):
        return SymReal(tm.exp(self.t))

    def log(self):
        return SymReal(slog(self.t))

    def square(self):
        return SymReal(tm.mul(self.t, self.t))


class SymInt(SymReal):
    """A real term known to be integer valued."""

    __slots__ = ()

    def __index__(self):
        if CUR is None:
            raise EngineUnsupported("index() of a symbolic integer outside a run")
        return CUR.concretize_int(self.t)

    __int__ = __index__

    def __add__(self, o):
        r = SymReal.__add__(self, o)
        return SymInt(r.t) if isinstance(o, (int, SymInt)) and r is not NotImplemented else r

    __radd__ = __add__

    def __sub__(self, o):
        r = SymReal.__sub__(self, o)
        return SymInt(r.t) if isinstance(o, (int, SymInt)) and r is not NotImplemented else r

    def __rsub__(self, o):
        r = SymReal.__rsub__(self, o)
        return SymInt(r.t) if isinstance(o, (int, SymInt)) and r is not NotImplemented else r

    def __mul__(self, o):
        r = SymReal.__mul__(self, o)
        return SymInt(r.t) if isinstance(o, (int, SymInt)) and r is not NotImplemented else r

    __rmul__ = __mul__

    def __neg__(self):
        return SymInt(tm.neg(self.t))

    def __floordiv__(self, o):
        return SymInt(tm.floor(_sdiv(self.t, _t(o))))

    def __repr__(self):
        return "SymInt(%s)" % self.t


# element-level partial operations with definedness side conditions (R-mode)


def _side(cond, what):
    if CUR is not None:
        CUR.side_condition(cond, what)


def _poison(what):
    """An undefined real result (x/0, log(0), sqrt(-1) on constants) in exact-real mode: an
    unconstrained fresh value.  Sound for 'the result does not depend on it' reasoning: code that
    masks the value out is unaffected, code that lets it through yields a satisfiable disagreement."""
    if CUR is None:
        raise ZeroDivisionError(what)
    CUR.note("undefined real operation modelled as an arbitrary value: " + what)
    return CUR.fresh("undef")


def _sdiv(a: T, b: T) -> T:
    if b.op == "const":
        if b.val == 0:
            return _poison("division by constant zero")
        return tm.div(a, b)
    _side(tm.ne(b, tm.ZERO), "div")
    return tm.div(a, b)


def slog(a: T) -> T:
    if a.op == "const":
        if a.val <= 0:
            return _poison("log of a non-positive constant")
    else:
        _side(tm.gt(a, tm.ZERO), "log")
    return tm.log(a)


def ssqrt(a: T) -> T:
    if a.op == "const":
        if a.val < 0:
            return _poison("sqrt of a negative constant")
    else:
        _side(tm.ge(a, tm.ZERO), "sqrt")
    return tm.sqrt(a)


def spow(a: T, e) -> T:
    if isinstance(e, (SymReal, T)) and not (_t(e).op == "const"):
        et = _t(e)
        return tm.exp(tm.mul(et, slog(a)))
    if isinstance(e, (SymReal, T)):
        e = _t(e).val
    if isinstance(e, float):
        ec = tm.const(e)
        e = ec.val
    e = Fraction(e)
    if e.denominator == 1:
        if e < 0:
            _side(tm.ne(a, tm.ZERO), "pow")
        return tm.powi(a, int(e))
    if e.denominator == 2:
        return tm.powi(ssqrt(a), int(e.numerator))
    _side(tm.ge(a, tm.ZERO) if e > 0 else tm.gt(a, tm.ZERO), "pow")
    return tm.pow_(a, e)
