"""Element algebra used by every tensor handler.

R-mode: an element is a term (real or Boolean sort); partial operations record definedness side
conditions in the run context.
X-mode: a real element is an XReal (nan, +inf, -inf flags as Boolean terms plus a real value term)
with IEEE-754 rules for the special values and exact arithmetic for finite ones.  Signed zeros
and finite overflow are not modelled."""
from __future__ import annotations

import math
from fractions import Fraction

from . import ctx as cx
from . import terms as tm
from .terms import FALSE, ONE, TRUE, ZERO, T


class XReal:
    __slots__ = ("nan", "pinf", "ninf", "val")

    def __init__(self, val, nan=FALSE, pinf=FALSE, ninf=FALSE):
        self.val = val
        self.nan = nan
        self.pinf = pinf
        self.ninf = ninf

    @property
    def inf(self):
        return tm.or_(self.pinf, self.ninf)

    @property
    def finite(self):
        return tm.not_(tm.or_(self.nan, self.pinf, self.ninf))

    def pos(self):
        return tm.or_(self.pinf, tm.and_(self.finite, tm.gt(self.val, ZERO)))

    def neg(self):
        return tm.or_(self.ninf, tm.and_(self.finite, tm.lt(self.val, ZERO)))

    def zero(self):
        return tm.and_(self.finite, tm.eq(self.val, ZERO))

    def __repr__(self):
        return "X(%s|nan=%s,+inf=%s,-inf=%s)" % (tm.show(self.val, 3), tm.show(self.nan, 2), tm.show(self.pinf, 2), tm.show(self.ninf, 2))


def xmode() -> bool:
    return cx.CUR is not None and cx.CUR.xmode


def X(a) -> XReal:
    if isinstance(a, XReal):
        return a
    if isinstance(a, T):
        if a.sort == "B":
            return XReal(tm.ite(a, ONE, ZERO))
        return XReal(a)
    if isinstance(a, (cx.SymReal, cx.SymInt)):
        return XReal(a.t)
    if isinstance(a, cx.SymBool):
        return XReal(tm.ite(a.t, ONE, ZERO))
    return lift_x(a)


def lift_x(x) -> XReal:
    if isinstance(x, float):
        if x != x:
            return XReal(ZERO, nan=TRUE)
        if x == math.inf:
            return XReal(ZERO, pinf=TRUE)
        if x == -math.inf:
            return XReal(ZERO, ninf=TRUE)
    return XReal(tm.const(x))


def lift(x):
    """Python/symbolic scalar -> element."""
    if isinstance(x, (T, XReal)):
        return x
    if isinstance(x, (cx.SymReal, cx.SymInt)):
        return X(x.t) if xmode() else x.t
    if isinstance(x, cx.SymBool):
        return x.t
    if isinstance(x, bool):
        return TRUE if x else FALSE
    if hasattr(x, "_p"):
        p = x._p.reshape(-1)
        if p.size != 1:
            raise cx.EngineUnsupported("multi-element tensor used as a scalar")
        return p[0]
    try:
        import torch

        if isinstance(x, torch.Tensor):
            x = x.item()
    except ImportError:
        pass
    if xmode():
        return lift_x(x)
    if isinstance(x, float) and (x != x or x in (math.inf, -math.inf)):
        # a non-finite literal in exact-real mode (e.g. `t.abs() == math.inf`): an extended-real constant, so that comparing a
        # real term with it folds to the constant truth value
        return lift_x(x)
    return tm.const(x)


def fresh_input(name):
    v = tm.var(name)
    return XReal(v) if xmode() else v


def value_term(x) -> T:
    return x.val if isinstance(x, XReal) else x


def is_bool(x) -> bool:
    return isinstance(x, T) and x.sort == "B"


def _anyx(*xs):
    return any(isinstance(x, XReal) for x in xs)


def _r(x) -> T:
    """coerce an R-mode element to a real term"""
    if isinstance(x, T):
        return tm.ite(x, ONE, ZERO) if x.sort == "B" else x
    return lift(x)


# ---- arithmetic ------------------------------------------------------------------------------


def add(a, b):
    if _anyx(a, b):
        a, b = X(a), X(b)
        nan = tm.or_(a.nan, b.nan, tm.and_(a.pinf, b.ninf), tm.and_(a.ninf, b.pinf))
        return XReal(tm.add(a.val, b.val), nan, tm.and_(tm.not_(nan), tm.or_(a.pinf, b.pinf)),
                     tm.and_(tm.not_(nan), tm.or_(a.ninf, b.ninf)))
    return tm.add(_r(a), _r(b))


def neg(a):
    if isinstance(a, XReal):
        return XReal(tm.neg(a.val), a.nan, a.ninf, a.pinf)
    return tm.neg(_r(a))


def sub(a, b):
    if _anyx(a, b):
        return add(a, neg(X(b)))
    return tm.sub(_r(a), _r(b))


def mul(a, b):
    if _anyx(a, b):
        a, b = X(a), X(b)
        anyinf = tm.or_(a.inf, b.inf)
        nan = tm.or_(a.nan, b.nan, tm.and_(a.inf, b.zero()), tm.and_(a.zero(), b.inf))
        same = tm.or_(tm.and_(a.pos(), b.pos()), tm.and_(a.neg(), b.neg()))
        opp = tm.or_(tm.and_(a.pos(), b.neg()), tm.and_(a.neg(), b.pos()))
        ok = tm.and_(tm.not_(nan), anyinf)
        return XReal(tm.mul(a.val, b.val), nan, tm.and_(ok, same), tm.and_(ok, opp))
    return tm.mul(_r(a), _r(b))


def div(a, b):
    if _anyx(a, b):
        a, b = X(a), X(b)
        bz = b.zero()
        nan = tm.or_(a.nan, b.nan, tm.and_(bz, a.zero()), tm.and_(a.inf, b.inf))
        # result infinite: a nonzero / 0  (sign of a; zeros are +0), or a inf / finite b
        inf_by_zero = tm.and_(bz, tm.or_(a.inf, tm.and_(a.finite, tm.ne(a.val, ZERO))))
        inf_by_a = tm.and_(a.inf, b.finite, tm.not_(bz))
        pinf = tm.and_(tm.not_(nan), tm.or_(tm.and_(inf_by_zero, a.pos()),
                                           tm.and_(inf_by_a, tm.or_(tm.and_(a.pos(), b.pos()), tm.and_(a.neg(), b.neg())))))
        ninf = tm.and_(tm.not_(nan), tm.or_(tm.and_(inf_by_zero, a.neg()),
                                           tm.and_(inf_by_a, tm.or_(tm.and_(a.pos(), b.neg()), tm.and_(a.neg(), b.pos())))))
        safe_b = tm.ite(tm.eq(b.val, ZERO), ONE, b.val) if b.val.op != "const" else (b.val if b.val.val != 0 else ONE)
        val = tm.ite(b.inf, ZERO, tm.div(a.val, safe_b))
        return XReal(val, nan, pinf, ninf)
    return cx._sdiv(_r(a), _r(b))


def abs_(a):
    if isinstance(a, XReal):
        return XReal(tm.abs_(a.val), a.nan, a.inf, FALSE)
    return tm.abs_(_r(a))


def sqrt(a):
    if isinstance(a, XReal):
        nan = tm.or_(a.nan, a.ninf, tm.and_(a.finite, tm.lt(a.val, ZERO)))
        return XReal(tm.sqrt(tm.ite(tm.ge(a.val, ZERO), a.val, ZERO)), nan, a.pinf, FALSE)
    return cx.ssqrt(_r(a))


def exp(a):
    if isinstance(a, XReal):
        return XReal(tm.ite(a.ninf, ZERO, tm.exp(a.val)), a.nan, a.pinf, FALSE)
    return tm.exp(_r(a))


def log(a):
    if isinstance(a, XReal):
        nan = tm.or_(a.nan, a.ninf, tm.and_(a.finite, tm.lt(a.val, ZERO)))
        return XReal(tm.log(tm.ite(tm.gt(a.val, ZERO), a.val, ONE)), nan, a.pinf, a.zero())
    return cx.slog(_r(a))


def Phi(a):
    if isinstance(a, XReal):
        val = tm.ite(a.pinf, ONE, tm.ite(a.ninf, ZERO, tm.Phi(a.val)))
        return XReal(val, a.nan, FALSE, FALSE)
    return tm.Phi(_r(a))


def erf(a):
    # erf(x) = 2*Phi(sqrt(2)*x) - 1
    s2 = tm.named("SQRT2")
    return sub(mul(lift(2), Phi(mul(X(s2) if isinstance(a, XReal) else s2, a))), lift(1))


def cos(a):
    if isinstance(a, XReal):
        return XReal(tm.cos(a.val), tm.or_(a.nan, a.inf), FALSE, FALSE)
    return tm.cos(_r(a))


def sin(a):
    if isinstance(a, XReal):
        return XReal(tm.sin(a.val), tm.or_(a.nan, a.inf), FALSE, FALSE)
    return tm.sin(_r(a))


def pow_(a, e):
    e_l = lift(e) if not isinstance(e, (T, XReal)) else e
    if _anyx(a, e_l):
        et = value_term(e_l)
        if et.op != "const":
            raise cx.EngineUnsupported("symbolic exponent in extended-real mode")
        ev = et.val
        if ev.denominator == 1:
            n = int(ev)
            r = lift(1)
            for _ in range(abs(n)):
                r = mul(r, a)
            return r if n >= 0 else div(lift(1), r)
        if ev == Fraction(1, 2):
            return sqrt(a)
        if ev == Fraction(1, 3):
            a = X(a)
            nan = tm.or_(a.nan, a.ninf, tm.and_(a.finite, tm.lt(a.val, ZERO)))
            return XReal(tm.cbrt(tm.ite(tm.ge(a.val, ZERO), a.val, ZERO)), nan, a.pinf, FALSE)
        if ev > 0:
            # torch.pow of a negative base with a non-integer exponent is NaN
            a = X(a)
            nan = tm.or_(a.nan, a.ninf, tm.and_(a.finite, tm.lt(a.val, ZERO)))
            return XReal(tm.pow_(tm.ite(tm.ge(a.val, ZERO), a.val, ZERO), ev), nan, a.pinf, FALSE)
        raise cx.EngineUnsupported("negative fractional power in extended-real mode")
    return cx.spow(_r(a), e_l)


def rpow(base, e):
    """base ** e for a scalar base and element exponent."""
    b = lift(base)
    if _anyx(b, e):
        raise cx.EngineUnsupported("rpow in extended-real mode")
    return tm.exp(tm.mul(_r(e), cx.slog(_r(b))))


# ---- order ---------------------------------------------------------------------------------------


def lt(a, b):
    if _anyx(a, b):
        a, b = X(a), X(b)
        return tm.and_(tm.not_(a.nan), tm.not_(b.nan),
                       tm.or_(tm.and_(a.ninf, tm.not_(b.ninf)), tm.and_(b.pinf, tm.not_(a.pinf)),
                              tm.and_(a.finite, b.finite, tm.lt(a.val, b.val))))
    return tm.lt(_r(a), _r(b))


def le(a, b):
    if _anyx(a, b):
        a, b = X(a), X(b)
        return tm.and_(tm.not_(a.nan), tm.not_(b.nan),
                       tm.or_(a.ninf, b.pinf, tm.and_(a.finite, b.finite, tm.le(a.val, b.val))))
    return tm.le(_r(a), _r(b))


def gt(a, b):
    return lt(b, a)


def ge(a, b):
    return le(b, a)


def eq(a, b):
    if _anyx(a, b):
        a, b = X(a), X(b)
        return tm.and_(tm.not_(a.nan), tm.not_(b.nan),
                       tm.or_(tm.and_(a.pinf, b.pinf), tm.and_(a.ninf, b.ninf),
                              tm.and_(a.finite, b.finite, tm.eq(a.val, b.val))))
    if is_bool(a) and is_bool(b):
        return tm.iff(a, b)
    return tm.eq(_r(a), _r(b))


def ne(a, b):
    return tm.not_(eq(a, b))


def ite(c, a, b):
    c = truthy(c)
    if _anyx(a, b):
        a, b = X(a), X(b)
        return XReal(tm.ite(c, a.val, b.val), tm.ite(c, a.nan, b.nan), tm.ite(c, a.pinf, b.pinf), tm.ite(c, a.ninf, b.ninf))
    if is_bool(a) and is_bool(b):
        return tm.ite(c, a, b)
    return tm.ite(c, _r(a), _r(b))


def max_(a, b):
    if _anyx(a, b):
        a, b = X(a), X(b)
        r = ite(ge(a, b), a, b)
        nan = tm.or_(a.nan, b.nan)
        return XReal(r.val, nan, tm.and_(tm.not_(nan), r.pinf), tm.and_(tm.not_(nan), r.ninf))
    return tm.max_(_r(a), _r(b))


def min_(a, b):
    if _anyx(a, b):
        a, b = X(a), X(b)
        r = ite(le(a, b), a, b)
        nan = tm.or_(a.nan, b.nan)
        return XReal(r.val, nan, tm.and_(tm.not_(nan), r.pinf), tm.and_(tm.not_(nan), r.ninf))
    return tm.min_(_r(a), _r(b))


def max_many(xs):
    r = xs[0]
    for x in xs[1:]:
        r = max_(r, x)
    return r


def min_many(xs):
    r = xs[0]
    for x in xs[1:]:
        r = min_(r, x)
    return r


def sum_(xs):
    if not xs:
        return lift(0)
    if _anyx(*xs):
        r = xs[0]
        for x in xs[1:]:
            r = add(r, x)
        return r
    return tm.add(*[_r(x) for x in xs])


def prod_(xs):
    r = lift(1)
    for x in xs:
        r = mul(r, x)
    return r


# ---- Booleans -------------------------------------------------------------------------------------


def truthy(x) -> T:
    if isinstance(x, XReal):
        return tm.or_(x.nan, x.inf, tm.ne(x.val, ZERO))
    if isinstance(x, T):
        return x if x.sort == "B" else tm.ne(x, ZERO)
    if isinstance(x, cx.SymBool):
        return x.t
    return TRUE if x else FALSE


def bool_to_real(x):
    t = tm.ite(truthy(x), ONE, ZERO)
    return XReal(t) if xmode() else t


def and_(a, b):
    return tm.and_(truthy(a), truthy(b))


def or_(a, b):
    return tm.or_(truthy(a), truthy(b))


def not_(a):
    return tm.not_(truthy(a))


def and_many(xs):
    return tm.and_(*xs)


def or_many(xs):
    return tm.or_(*xs)


def isnan(x):
    return x.nan if isinstance(x, XReal) else FALSE


def isinf(x):
    return x.inf if isinstance(x, XReal) else FALSE


def isfinite(x):
    return x.finite if isinstance(x, XReal) else TRUE


def to_scalar(x):
    if isinstance(x, XReal):
        raise cx.EngineUnsupported("item() in extended-real mode")
    if isinstance(x, T):
        return cx.SymBool(x) if x.sort == "B" else cx.SymReal(x)
    return x
