"""C06 — cash() is the certainty equivalent and price() the indifference price."""
from fractions import Fraction

import numpy as np
import torch

from harness.lib import Case
from harness import common as cm
from harness.stubs import NotElementwise, patched_bisect
from symtorch import api, ctx as cx, facades, terms as tm
from symtorch import tensor as st
from symtorch.api import elem

META = {
    "stubs": ["bisect: assume-guarantee contract stub with call-site precondition checks (default HedgeLoss.cash, QuadraticCVaR)",
              "simulate(): the derivative's simulate is replaced by 'install fresh symbolic buffers', indexed by call number, so that compared "
              "quantities see the same simulated paths", "hedging model: uninterpreted row-wise function"],
    "axioms": ["exp/log inverse and product law; sorting networks (ES); congruence of the uninterpreted model"],
    "assumptions": ["exact reals; N<=3 paths, M<=2 columns, T=3", "default search: equality of criteria up to the criterion's modulus x precision (1e-6)",
                    "NOT decided: cash <= mean for IsoelasticLoss (Jensen for x^(1-a)); uniqueness of the certainty equivalent"],
}


def col(x, j=None):
    n = x.shape[0]
    return [elem(x, i) if j is None else elem(x, i, j) for i in range(n)]


def closed_form_case(kind, N, M):
    """criteria with their own cash(): certainty equivalence, range, <= mean"""
    from pfhedge import nn

    def fn(c):
        shape = (N, M) if M else (N,)
        x = api.tensor(c, "x", shape)
        tgt = api.tensor(c, "target", shape)
        a = api.real(c, "a", pos=True)
        with facades.real_torch():
            m = {"entropic_risk": lambda: nn.EntropicRiskMeasure(1.0), "entropic_loss": lambda: nn.EntropicLoss(1.0),
                 "es": lambda: nn.ExpectedShortfall(0.5)}[kind]()
        if kind != "es":
            m.a = a
        pl = x - tgt
        cash = m.cash(x, tgt)
        oshape = (M,) if M else ()
        c.check("%s cash shape" % kind, tuple(cash.shape) == oshape)
        const = torch.ones_like(pl) * cash  # a constant sample at the cash amount (per column)
        lhs, rhs = m(const), m(pl)
        for j in range(M or 1):
            idx = (j,) if M else ()
            cj = elem(cash, *idx)
            xs = [elem(pl, i, j) if M else elem(pl, i) for i in range(N)]
            if kind == "es":
                c.check("criterion(constant cash)[%d] == criterion(sample)" % j, api.eq(elem(lhs, *idx), elem(rhs, *idx)))
                c.check("min <= cash <= max [%d]" % j, api.all_(api.ge(cj, api.minv(*xs)), api.le(cj, api.maxv(*xs))))
                c.check("cash <= mean [%d]" % j, api.le(cj, sum(xs[1:], xs[0]) / N))
            else:
                # exponential form (exp strictly increasing): exp(-a*cash) is the executed mean(exp(-a x))
                e_cash = api.exp(-a * cj)
                mean_exp = sum((api.exp(-a * e) for e in xs[1:]), api.exp(-a * xs[0])) / N
                c.check("exp(-a cash)[%d] == mean exp(-a x)  (certainty equivalent)" % j, api.eq(e_cash, mean_exp))
                if kind == "entropic_loss":
                    c.check("criterion(constant cash)[%d] == criterion(sample)" % j, api.eq(elem(lhs, *idx), elem(rhs, *idx)))
                else:
                    c.check("criterion(constant cash)[%d] == criterion(sample) (exponential form)" % j,
                            api.eq(api.exp(a * elem(lhs, *idx)), api.exp(a * elem(rhs, *idx))))
                mean = sum(xs[1:], xs[0]) / N
                if c.mode == "sym":
                    c.assume(api.gt(api.exp(-a * mean), 0))
                    for e in xs:
                        u = -a * e + a * mean
                        c.assume(api.ge(api.exp(u), 1 + u))
                # exp(-a .) is decreasing: exp(-a min x) = max_i exp(-a x_i), exp(-a max x) = min_i exp(-a x_i)
                es = [api.exp(-a * e) for e in xs]
                c.check("min <= cash <= max [%d] (exponential form)" % j, api.all_(api.le(e_cash, api.maxv(*es)), api.ge(e_cash, api.minv(*es))))
                c.check("cash <= mean [%d] (exponential form)" % j, api.ge(e_cash, api.exp(-a * mean)))
        if N > 1:
            xs = [elem(pl, i, 0) if M else elem(pl, i) for i in range(N)]
            c.control("control:cash equals the mean", api.eq(elem(cash, *((0,) if M else ())), sum(xs[1:], xs[0]) / N))

    return fn


def qcvar_cash_case(N):
    from pfhedge.nn import QuadraticCVaR

    def fn(c):
        c.env["log10_decade"] = 0
        x = api.tensor(c, "x", (N,), lo=-3, hi=3)
        tgt = api.tensor(c, "target", (N,), lo=-1, hi=1)
        lam = api.real(c, "lam", lo=1, hi=20)
        with facades.real_torch():
            m = QuadraticCVaR(10.0)
        m.lam = lam
        with patched_bisect(c, name="quadratic_cvar->bisect", check_preconditions=False):
            cash = elem(m.cash(x, tgt))
            risk = elem(m(x, tgt))
        c.check("quadratic CVaR: cash == -risk", api.eq(cash, -risk, tol=1e-5))
        c.control("control:quadratic CVaR cash == risk", api.eq(cash, risk, tol=1e-5))

    return fn


class MeanLoss:
    pass


def default_search_case(kind, N, M):
    """criteria relying on the default search HedgeLoss.cash (bisect between the worst and the best outcome)"""
    from pfhedge import nn
    from pfhedge.nn.modules.loss import HedgeLoss

    class NegMean(HedgeLoss):  # a user criterion: minus the mean (monotone, risk-neutral)
        def forward(self, input, target=0.0):
            return -(input - target).mean(0)

    def fn(c):
        shape = (N, M) if M else (N,)
        w = api.tensor(c, "w", shape, lo=Fraction(1, 2), hi=3)  # positive wealth (isoelastic domain)
        tgt = api.tensor(c, "target", shape, lo=-1, hi=1)
        with facades.real_torch():
            m = nn.IsoelasticLoss(0.5) if kind == "isoelastic" else NegMean()
        inp = w + tgt  # input - target = w
        allw = api.elems(w)
        const = api.eq(api.minv(*allw), api.maxv(*allw))  # region of the recorded finding F2: every outcome equal
        with patched_bisect(c, name="HedgeLoss.cash->bisect", degenerate=const) as stub:
            try:
                cash = m.cash(inp, tgt)
            except NotElementwise:
                return
            except ValueError:
                c.check("cash() returns instead of raising ValueError [non-constant sample]", const)
                c.check("cash() returns instead of raising ValueError [constant sample]", api.not_(const))
                return
        oshape = (M,) if M else ()
        c.check("default cash shape", tuple(cash.shape) == oshape)
        prec = stub.calls[0]["precision"]
        const = torch.ones_like(w) * cash
        lhs, rhs = m(const), m(w)
        for j in range(M or 1):
            idx = (j,) if M else ()
            ws = [elem(w, i, j) if M else elem(w, i) for i in range(N)]
            cj = elem(cash, *idx)
            # |criterion(const) - criterion(sample)| <= L * precision with L the Lipschitz modulus of c -> criterion(c)
            L = 1.0 if kind == "negmean" else 1.0 / (2 * (0.5 ** 0.5))  # d sqrt(c)/dc <= 1/(2 sqrt(1/2)) on c >= 1/2
            c.check("criterion(constant cash)[%d] == criterion(sample) up to modulus*precision" % j,
                    api.le(api.absv(elem(lhs, *idx) - elem(rhs, *idx)), L * prec * 1.001, tol=1e-9))
            c.check("min <= cash <= max [%d]" % j, api.all_(api.ge(cj, api.minv(*ws)), api.le(cj, api.maxv(*ws))))
            if kind == "isoelastic":
                # risk-averse: the certainty equivalent (mean sqrt w)^2 does not exceed the mean (Cauchy-Schwarz), up to the search precision
                c.check("cash <= mean + precision [%d]" % j, api.le(cj, sum(ws[1:], ws[0]) / N + prec * 1.001, tol=1e-9))
            if kind == "negmean":
                c.check("cash within precision of the mean [%d]" % j, api.le(api.absv(cj - sum(ws[1:], ws[0]) / N), prec * 1.001, tol=1e-9))

    return fn


class SimStub:
    """derivative.simulate replaced by: install fresh symbolic buffers, indexed by call number"""

    def __init__(self, c, deriv, N, T, prefix="sim"):
        self.c, self.deriv, self.N, self.T, self.prefix = c, deriv, N, T, prefix
        self.k = 0
        self.args = []
        self.spots = []
        deriv.simulate = self

    def __call__(self, n_paths=1, init_state=None):
        self.args.append((n_paths, init_state))
        S = api.tensor(self.c, "%s%d.spot" % (self.prefix, self.k), (self.N, self.T), pos=True)
        self.k += 1
        self.deriv.ul().register_buffer("spot", S)
        self.spots.append(S)

    def reset(self):
        self.k = 0


def price_case(crit_kind, n_times, clause=False):
    from pfhedge import nn

    def fn(c):
        N, T = 2, 3
        env = cm.market(c, N, T, "european", "underlier", cost_sym=False)
        deriv = env["derivative"]
        a = api.real(c, "a", pos=True)
        with facades.real_torch():
            crit = nn.ExpectedShortfall(0.5) if crit_kind == "es" else nn.EntropicRiskMeasure(1.0)
        if crit_kind != "es":
            crit.a = a
        hedger = cm.make_hedger(c, ["log_moneyness", "time_to_maturity", "volatility"], 1, criterion=crit)
        sim = SimStub(c, deriv, N, T)
        tok = (1.25,)  # a non-default initial state: it must reach every simulate() call price() makes (documented argument)
        price = hedger.price(deriv, n_paths=N, n_times=n_times, init_state=tok)
        c.check("price is a scalar", tuple(price.shape) == ())
        c.check("price simulates from the caller's init_state", len(sim.args) >= 1 and all(a_[1] is not None and tuple(a_[1]) == tok for a_ in sim.args))
        c.check("price simulates n_times batches of the requested size", len(sim.args) == n_times and all(a_[0] == N for a_ in sim.args))
        # the same paths again, evaluated by hand: minus the cash amount of (portfolio - payoff)
        vals = []
        for k in range(n_times):
            deriv.ul().register_buffer("spot", sim.spots[k])
            pf = hedger.compute_portfolio(deriv)
            pay = deriv.payoff()
            vals.append(-elem(crit.cash(pf, target=pay)))
            pl = hedger.compute_pl(deriv)
            if k == 0 and n_times == 1:
                c.check("price == -cash(P&L)", api.eq(elem(price), -elem(crit.cash(pl))))
                if crit_kind == "entropic":
                    c.check("entropic: price == loss on the same paths", api.eq(elem(price), elem(crit(pf, pay))))
        c.check("price == mean over n_times of -cash(portfolio - payoff)", api.eq(elem(price), sum(vals[1:], vals[0]) / n_times))
        if n_times == 1 and crit_kind == "es":
            c.control("control:price == +cash", api.eq(elem(price), -vals[0]))
        if clause:
            k_ = api.real(c, "k")
            deriv.add_clause("rebate", lambda d, p: p + k_)
            sim.reset()
            sim.spots.clear()
            sim.args.clear()
            price2 = hedger.price(deriv, n_paths=N, n_times=n_times)
            if crit_kind == "es":
                c.check("adding a constant k to the payoff raises the price by exactly k", api.eq(elem(price2), elem(price) + k_))
                if n_times == 1:
                    c.control("control:clause leaves the price unchanged", api.eq(elem(price2), elem(price)))
            else:
                if c.mode == "sym":
                    c.assume(api.gt(api.exp(a * k_), 0))
                c.check("adding a constant k to the payoff raises the price by exactly k (exponential form)",
                        api.eq(api.exp(a * elem(price2)), api.exp(a * elem(price)) * api.exp(a * k_)))

    return fn


def cases():
    cs = []
    enc = ("EntropicRiskMeasure.cash", "EntropicLoss.cash", "ExpectedShortfall.cash", "QuadraticCVaR.cash", "HedgeLoss.cash (default search)",
           "IsoelasticLoss", "Hedger.price", "ensemble_mean", "BaseDerivative.add_clause/payoff", "Hedger.compute_portfolio/compute_pl")
    fam = ("basic", "mono", "bounds")
    for kind in ("entropic_risk", "entropic_loss", "es"):
        for (N, M) in ((1, 0), (2, 0), (2, 2)):
            cs.append(Case("cash/%s/N%dM%d" % (kind, N, M), closed_form_case(kind, N, M), encodes=enc, families=fam, batch=False, timeout=60,
                           bounds="N=%d M=%d, symbolic target%s" % (N, M, "" if kind == "es" else ", all a>0")))
        for (N, M) in ((3, 2), (5, 1)):
            cs.append(Case("cash/%s/N%dM%d" % (kind, N, M), closed_form_case(kind, N, M), tier="thorough", encodes=enc, families=fam, batch=False,
                           timeout=300, bounds="N=%d M=%d" % (N, M)))
    cs.append(Case("cash/qcvar/N2", qcvar_cash_case(2), encodes=enc, families=("basic",), batch=False, timeout=60, bounds="N=2", max_paths=16))
    for kind in ("isoelastic", "negmean"):
        for (N, M) in ((2, 0), (3, 0), (2, 2)):
            cs.append(Case("default-cash/%s/N%dM%d" % (kind, N, M), default_search_case(kind, N, M), encodes=enc, families=fam, batch=False, timeout=60,
                           bounds="N=%d M=%d wealth in [1/2,3]" % (N, M), max_paths=16, expect_exc=()))
    for ck in ("es", "entropic"):
        cs.append(Case("price/%s/n_times=1/clause" % ck, price_case(ck, 1, clause=True), encodes=enc, families=fam, batch=False, timeout=120,
                       bounds="N=2 T=3, uninterpreted model"))
        cs.append(Case("price/%s/n_times=2" % ck, price_case(ck, 2), encodes=enc, families=fam, batch=False, timeout=120, bounds="N=2 T=3 n_times=2"))
    cs.append(Case("price/es/n_times=3/clause", price_case("es", 3, clause=True), tier="thorough", encodes=enc, families=fam, batch=False, timeout=300, bounds="n_times=3"))
    return cs
