"""C07 — Black-Scholes prices equal the expected payoff under the model.

The expectation (an integral against the lognormal / running-maximum law) is not expressible in a
quantifier-free real theory; the solver decides the boundary-value problem that characterises it
(Feynman-Kac + uniqueness among polynomially bounded solutions: trusted theorem) and the wiring."""
import numpy as np
import torch

from harness.lib import Case
from harness import common as cm
from harness.c08 import dfun
from harness import c18
from symtorch import api, ctx as cx, facades, terms as tm
from symtorch import tensor as st
from symtorch.api import elem

META = {
    "stubs": ["simulate(): fresh symbolic buffers (wiring cases)"],
    "axioms": ["exp add-law/congruence/positivity, sqrt, Phi symmetry and range, Phi' = INV_SQRT_2PI exp(-x^2/2)", "extended reals at t=0 (terminal condition)"],
    "assumptions": ["trusted theorem: a C^{1,2} polynomially bounded solution of P_t = 1/2 v^2 S^2 P_SS with the payoff as terminal value (and the "
                    "barrier / running-maximum boundary conditions) is the zero-rate risk-neutral expectation (Feynman-Kac, uniqueness)",
                    "the limit t -> 0+ is represented by the value at t = 0 only", "exact reals; tensors (1,)"],
}


def pde_case(kind, call, branch=None):
    from pfhedge.nn import functional as F

    def fn(c):
        K = api.real(c, "K", pos=True)
        s = api.tensor(c, "s", (1,))
        t = api.tensor(c, "t", (1,), pos=True)
        v = api.tensor(c, "v", (1,), pos=True)
        if kind in ("ambinary", "lookback"):
            m = api.tensor(c, "m", (1,))
            ms, ss = api.elem(m, 0), api.elem(s, 0)
            c.assume(api.ge(ms, ss))
            c.assume(api.lt(ms, 0) if branch == "below" else api.gt(ms, 0))
        if kind == "european":
            price = lambda s_, t_, v_: F.bs_european_price(s_, t_, v_, strike=K, call=call)  # noqa: E731
        elif kind == "eubinary":
            price = lambda s_, t_, v_: F.bs_european_binary_price(s_, t_, v_, call=call)  # noqa: E731
        elif kind == "ambinary":
            price = lambda s_, t_, v_: F.bs_american_binary_price(s_, m, t_, v_)  # noqa: E731
        else:
            price = lambda s_, t_, v_: F.bs_lookback_price(s_, m, t_, v_, K)  # noqa: E731
        if c.mode == "sym":
            Ps = lambda s_: dfun(c, lambda y: price(y, t, v), s_)  # noqa: E731
            P_s = Ps(s)
            P_ss = dfun(c, Ps, s)
            P_t = dfun(c, lambda y: price(s, y, v), t)
        else:
            with torch.no_grad():
                h = 1e-4
                p0, pp, pm = price(s, t, v), price(s + h, t, v), price(s - h, t, v)
                P_s = (pp - pm) / (2 * h)
                P_ss = (pp - 2 * p0 + pm) / h ** 2
                P_t = (price(s, t + h, v) - price(s, t - h, v)) / (2 * h)
        vv = api.elem(v, 0)
        lhs = api.elem(P_t, 0)
        rhs = vv * vv * (api.elem(P_ss, 0) - api.elem(P_s, 0)) / 2
        c.check("PDE %s %s%s: P_t = 1/2 v^2 S^2 P_SS" % (kind, "call" if call else "put", "/" + branch if branch else ""), api.eq(lhs, rhs, tol=1e-4))
        if kind == "european" and call:
            c.control("control:PDE with wrong diffusion coefficient", api.eq(lhs, vv * (api.elem(P_ss, 0) - api.elem(P_s, 0)) / 2, tol=1e-4))

    return fn


def boundary_case():
    from pfhedge.nn import functional as F

    def fn(c):
        K = api.real(c, "K", pos=True)
        t = api.tensor(c, "t", (1,), pos=True)
        v = api.tensor(c, "v", (1,), pos=True)
        s = api.tensor(c, "s", (1,), hi=0)
        ss = api.elem(s, 0)
        c.assume(api.lt(ss, 0))
        zero = s * 0
        # American binary: price is 1 on the barrier (spot = strike) and once the barrier has been reached
        m_neg = zero - 1
        c.check("ambinary formula equals 1 at spot = strike", api.eq(api.elem(F.bs_american_binary_price(zero, m_neg, t, v), 0), 1))
        mpos = api.tensor(c, "mpos", (1,), nonneg=True)
        c.check("ambinary equals 1 once the barrier is reached", api.eq(api.elem(F.bs_american_binary_price(s, mpos, t, v), 0), 1))
        # lookback: continuity where the running maximum crosses the strike
        m0 = api.tensor(c, "m0", (1,), hi=0)
        c.assume(api.lt(api.elem(m0, 0), 0))
        c.assume(api.ge(api.elem(m0, 0), ss))
        c.check("lookback continuous at max = strike",
                api.eq(api.elem(F.bs_lookback_price(s, m0, t, v, K), 0), api.elem(F.bs_lookback_price(s, zero, t, v, K), 0), tol=1e-6))
        # lookback: dP/dM = 0 at M = S on the branch max >= strike
        sp = api.tensor(c, "sp", (1,), pos=True)
        if c.mode == "sym":
            m = api.tensor(c, "mm", (1,), pos=True)
            dm = dfun(c, lambda y: F.bs_lookback_price(sp, y, t, v, K), m)
            at = tm.subst(st.terms_of(dm)[0], {st.terms_of(m)[0]: st.terms_of(sp)[0]})
            c.check("lookback dP/dM = 0 at M = S", api.eq(api.SymReal(at), 0))
            c.control("control:lookback dP/dM = 0 everywhere", api.eq(api.elem(dm, 0), 0))
        else:
            h = 1e-5
            d = (F.bs_lookback_price(sp, sp + h, t, v, K) - F.bs_lookback_price(sp, sp - h, t, v, K)) / (2 * h)
            c.check("lookback dP/dM = 0 at M = S", api.eq(d.item(), 0.0, tol=1e-5))
            m = api.tensor(c, "mm", (1,), pos=True)
            d2 = (F.bs_lookback_price(sp, m + h, t, v, K) - F.bs_lookback_price(sp, m - h, t, v, K)) / (2 * h)
            c.control("control:lookback dP/dM = 0 everywhere", api.eq(d2.item(), 0.0, tol=1e-7))

    return fn


def wiring_case(kind, call):
    """module price == functional form; from_derivative / BlackScholes(derivative) take strike, call and state from the derivative"""

    def fn(c):
        from pfhedge import nn
        from pfhedge.nn import functional as F

        N, T = 2, 3
        K = api.real(c, "K", pos=True)
        ul = cm.make_primary(c, "ul", N, T)
        deriv = cm.make_derivative(c, {"european": "european", "eubinary": "european_binary", "ambinary": "american_binary",
                                       "lookback": "lookback"}[kind], ul, strike=K, call=call)
        cls = {"european": nn.BSEuropeanOption, "eubinary": nn.BSEuropeanBinaryOption, "ambinary": nn.BSAmericanBinaryOption,
               "lookback": nn.BSLookbackOption}[kind]
        if not call and kind in ("ambinary", "lookback"):
            for build in (lambda: cls(call=False, strike=K), lambda: cls.from_derivative(deriv), lambda: nn.BlackScholes(deriv)):
                try:
                    build()
                    ok = False
                except ValueError:
                    ok = True
                c.check("%s put is rejected" % kind, ok)
            return
        with facades.real_torch():
            m_direct = cls(call=call, strike=K)
            m_from = cls.from_derivative(deriv)
            m_bs = nn.BlackScholes(deriv)
        c.check("BlackScholes(derivative) builds %s" % cls.__name__, type(m_bs) is cls)
        s = api.tensor(c, "s", (2,))
        t = api.tensor(c, "t", (2,), pos=True)
        v = api.tensor(c, "v", (2,), pos=True)
        mx = api.tensor(c, "m", (2,))
        if kind == "european":
            want = F.bs_european_price(s, t, v, strike=K, call=call)
            args = (s, t, v)
        elif kind == "eubinary":
            want = F.bs_european_binary_price(s, t, v, call=call)
            args = (s, t, v)
        elif kind == "ambinary":
            want = F.bs_american_binary_price(s, mx, t, v)
            args = (s, mx, t, v)
        else:
            want = F.bs_lookback_price(s, mx, t, v, K)
            args = (s, mx, t, v)
        for name, m in (("direct", m_direct), ("from_derivative", m_from), ("BlackScholes", m_bs)):
            c.check("%s: price == functional (%s)" % (kind, name), api.tensor_eq(m.price(*args), want))
            c.check("%s: strike/call taken over (%s)" % (kind, name), (m.strike is K or api.eq(m.strike, K)) and m.call == call)
        # arguments omitted: taken from the derivative's simulated state
        got = m_from.price()
        lm, ttm, vol = deriv.log_moneyness(), deriv.time_to_maturity(), ul.volatility
        if kind == "european":
            w2 = F.bs_european_price(lm, ttm, vol, strike=K, call=call)
        elif kind == "eubinary":
            w2 = F.bs_european_binary_price(lm, ttm, vol, call=call)
        elif kind == "ambinary":
            w2 = F.bs_american_binary_price(lm, deriv.max_log_moneyness(), ttm, vol)
        else:
            w2 = F.bs_lookback_price(lm, deriv.max_log_moneyness(), ttm, vol, K)
        c.check("%s: price() uses the derivative's state" % kind, api.tensor_same(got[:, :-1], w2[:, :-1]))
        # independent statement of the state: log(S/K), running max of it, (T-1-i)*dt, sigma
        S = ul.spot
        for n in range(N):
            run = None
            for i in range(T - 1):
                x = api.log(api.elem(S, n, i) / K)
                run = x if run is None else api.maxv(run, x)
                c.check("%s state: log-moneyness[%d,%d]" % (kind, n, i), api.eq(api.elem(lm, n, i), x))
                c.check("%s state: time to maturity[%d,%d]" % (kind, n, i), api.eq(api.elem(ttm, n, i), (T - 1 - i) * ul.dt))
                c.check("%s state: volatility[%d,%d]" % (kind, n, i), api.eq(api.elem(vol, n, i), ul.sigma))
                if kind in ("ambinary", "lookback"):
                    c.check("%s state: running max[%d,%d]" % (kind, n, i), api.eq(api.elem(deriv.max_log_moneyness(), n, i), run))
        # the underlier is simulated again with the same shape (fresh series through its own register_buffer): the same module objects
        # must price from the new state (nothing memoised per derivative or per buffer object may survive)
        cm.set_buffers(c, ul, "again", N, T)
        lm2, ttm2, vol2 = deriv.log_moneyness(), deriv.time_to_maturity(), ul.volatility
        if kind == "european":
            w3 = F.bs_european_price(lm2, ttm2, vol2, strike=K, call=call)
        elif kind == "eubinary":
            w3 = F.bs_european_binary_price(lm2, ttm2, vol2, call=call)
        elif kind == "ambinary":
            w3 = F.bs_american_binary_price(lm2, deriv.max_log_moneyness(), ttm2, vol2)
        else:
            w3 = F.bs_lookback_price(lm2, deriv.max_log_moneyness(), ttm2, vol2, K)
        for name, m in (("from_derivative", m_from), ("BlackScholes", m_bs)):
            c.check("%s: price() after a same-shape re-simulation uses the new state (%s)" % (kind, name),
                    api.tensor_same(m.price()[:, :-1], w3[:, :-1]))
        S2 = ul.spot
        for n in range(N):
            c.check("%s state after re-simulation: log-moneyness[%d,1]" % (kind, n), api.eq(api.elem(lm2, n, 1), api.log(api.elem(S2, n, 1) / K)))
            if kind in ("ambinary", "lookback"):
                c.check("%s state after re-simulation: running max[%d,1]" % (kind, n),
                        api.eq(api.elem(deriv.max_log_moneyness(), n, 1), api.maxv(api.log(api.elem(S2, n, 0) / K), api.log(api.elem(S2, n, 1) / K))))

    return fn


def broadcast_case():
    """any broadcastable tensor shapes: the functional forms act elementwise on the broadcast arguments"""
    from pfhedge.nn import functional as F

    def fn(c):
        K = api.real(c, "K", pos=True)
        s = api.tensor(c, "s", (2, 1))
        t = api.tensor(c, "t", (1, 2), pos=True)
        v = api.tensor(c, "v", (), pos=True)
        m = api.tensor(c, "m", (2, 1))
        fns = {
            "bs_european_price": lambda a, b, c_, mm: F.bs_european_price(a, b, c_, K),
            "bs_european_price(put)": lambda a, b, c_, mm: F.bs_european_price(a, b, c_, K, call=False),
            "bs_european_delta": lambda a, b, c_, mm: F.bs_european_delta(a, b, c_),
            "bs_european_gamma": lambda a, b, c_, mm: F.bs_european_gamma(a, b, c_, K),
            "bs_european_vega": lambda a, b, c_, mm: F.bs_european_vega(a, b, c_, K),
            "bs_european_theta": lambda a, b, c_, mm: F.bs_european_theta(a, b, c_, K),
            "bs_european_binary_price": lambda a, b, c_, mm: F.bs_european_binary_price(a, b, c_),
            "bs_european_binary_delta": lambda a, b, c_, mm: F.bs_european_binary_delta(a, b, c_, strike=K),
            "bs_european_binary_gamma": lambda a, b, c_, mm: F.bs_european_binary_gamma(a, b, c_, strike=K),
            "bs_american_binary_price": lambda a, b, c_, mm: F.bs_american_binary_price(a, mm, b, c_),
            "bs_american_binary_delta": lambda a, b, c_, mm: F.bs_american_binary_delta(a, mm, b, c_, K),
            "bs_lookback_price": lambda a, b, c_, mm: F.bs_lookback_price(a, mm, b, c_, K),
        }
        for name, f in fns.items():
            out = f(s, t, v, m)
            c.check("%s: broadcast shape" % name, tuple(out.shape) == (2, 2))
            for i in range(2):
                for j in range(2):
                    one = f(s[i, 0].reshape(1), t[0, j].reshape(1), v.reshape(1), m[i, 0].reshape(1))
                    c.check("%s[%d,%d] is the function of the broadcast arguments" % (name, i, j), api.same(api.elem(out, i, j), api.elem(one, 0)))

    return fn


def cases():
    cs = []
    enc = ("bs_european_price", "bs_european_binary_price", "bs_american_binary_price", "bs_lookback_price", "d1", "d2", "ncdf", "npdf",
           "BSEuropeanOption/BSEuropeanBinaryOption/BSAmericanBinaryOption/BSLookbackOption.price/from_derivative", "BlackScholes.__new__",
           "acquire_params_from_derivative_0/1/2", "OptionMixin.log_moneyness/max_log_moneyness/time_to_maturity", "BrownianStock.volatility")
    fam = ("basic",)
    for kind, calls in (("european", (True, False)), ("eubinary", (True, False))):
        for call in calls:
            cs.append(Case("pde/%s/%s" % (kind, "call" if call else "put"), pde_case(kind, call), encodes=enc, families=fam, batch=False,
                           bounds="all real log-moneyness, t>0, v>0, K>0", timeout=60))
    for kind in ("ambinary", "lookback"):
        for br in ("below", "above"):
            cs.append(Case("pde/%s/%s" % (kind, br), pde_case(kind, True, br), encodes=enc, families=fam, batch=False,
                           bounds="running max %s strike, max >= spot" % ("<" if br == "below" else ">"), timeout=300,
                           tier="quick" if kind == "ambinary" else "thorough"))
    for kind, calls in (("european", (True, False)), ("eubinary", (True, False)), ("ambinary", (True,)), ("lookback", (True,))):
        for call in calls:
            cs.append(Case("terminal/%s/%s" % (kind, "call" if call else "put"), c18.price_case(kind, call, "t0"), xmode=True, encodes=enc,
                           families=("basic", "mono", "bounds"), batch=False, bounds="t=0, all finite log-moneyness, v>=0, K>0"))
    cs.append(Case("broadcast", broadcast_case(), encodes=enc, families=fam, bounds="log-moneyness (2,1) x time (1,2) x scalar volatility", timeout=120))
    cs.append(Case("boundary", boundary_case(), encodes=enc, families=("basic", "mono", "bounds"), batch=False, bounds="t>0, v>0, K>0", timeout=120))
    for kind, calls in (("european", (True, False)), ("eubinary", (True, False)), ("ambinary", (True, False)), ("lookback", (True, False))):
        for call in calls:
            cs.append(Case("wiring/%s/%s" % (kind, "call" if call else "put"), wiring_case(kind, call), encodes=enc, families=("basic", "mono"),
                           bounds="N=2 T=3 symbolic buffers; tensors (2,)", timeout=60))
    return cs
