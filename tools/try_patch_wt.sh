#!/bin/bash
# try_patch_wt.sh <patch.diff> <Cxx> [<Cyy> ...]: like try_seed.sh / try_refactor.sh but without touching /repo: the patch is applied in a
# scratch worktree of /repo HEAD under /tmp/tp/<n> and the quick checks import pfhedge from there (PYTHONPATH).  Prints the summary line,
# VIOLATION / UNDECIDED / HARNESS-ERROR lines and the exit code per property.
PATCH=$(readlink -f "$1"); shift
cd "$(dirname "$0")/.."
bin/bootstrap.sh >/dev/null 2>&1
wt=/tmp/tp/$$; mkdir -p /tmp/tp
git -C /repo worktree add -q --detach $wt HEAD || exit 9
if git -C $wt apply "$PATCH"; then
  for P in "$@"; do
    out=$(VERIF_EVIDENCE_DIR=/tmp/tp/ev_$$ PYTHONPATH=$wt timeout 3000 .venv/bin/python -W ignore -m harness.run $P --tier quick 2>&1); rc=$?
    echo "$P exit=$rc violations=$(echo "$out" | grep -c '^VIOLATION') | $(echo "$out" | grep -E '^C[0-9]+ tier' | cut -c1-120)"
    echo "$out" | grep -E "^(VIOLATION|HARNESS-ERROR|UNDECIDED)" | cut -c1-200 | head -5
  done
else
  echo "patch does not apply"
fi
git -C /repo worktree remove --force $wt; rm -rf /tmp/tp/ev_$$
