#!/bin/bash
# Creates /verif/.venv: an overlay on /venv (torch, numpy, mpmath + /repo) with z3-solver and cvc5
# from the offline wheelhouse. Idempotent, lock-protected.
set -e
ROOT="$(cd "$(dirname "$0")/.." && pwd)"
VENV="$ROOT/.venv"
exec 9>"$ROOT/.bootstrap.lock"
flock 9
if [ -x "$VENV/bin/python" ] && "$VENV/bin/python" -c "import z3, torch" 2>/dev/null; then
  exit 0
fi
rm -rf "$VENV"
/venv/bin/python -m venv "$VENV"
SP="$VENV/lib/python3.12/site-packages"
printf "import site; site.addsitedir('/venv/lib/python3.12/site-packages')\n/repo\n" > "$SP/_base.pth"
PIP_NO_INDEX=1 "$VENV/bin/pip" install -q --no-index --find-links /opt/veriftools/wheels z3-solver cvc5 >/dev/null 2>&1 || \
PIP_NO_INDEX=1 "$VENV/bin/pip" install -q --no-index --find-links /opt/veriftools/wheels z3-solver
"$VENV/bin/python" -c "import z3, torch; print('bootstrap ok: z3', z3.get_version_string(), 'torch', torch.__version__)"
