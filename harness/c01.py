"""C01 — hedging P&L is the self-financing wealth identity."""
import torch

from harness.lib import Case
from harness import common as cm
from symtorch import api
from symtorch.api import elem

META = {
    "stubs": ["simulate(): instruments keep their real classes; buffers are fresh symbolic tensors",
              "hedging model: row-wise uninterpreted function F_h(features) per output column"],
    "axioms": ["congruence of uninterpreted model functions; real arithmetic (QF_NRA)"],
    "assumptions": [
        "exact real arithmetic: floating-point rounding of the reduction order is outside the claim",
        "torch.tensor(cost) is lifted exactly (no float32 round trip of the Python cost rates)",
        "tensor sizes bounded as listed per case; the code has no size-dependent branch",
    ],
}


def oracle_pl(N, H, T, S, U, Z, cost, first, variant=None):
    """Written-out wealth identity, one value per path."""
    out = []
    for n in range(N):
        acc = 0
        if Z is not None:
            acc = acc - elem(Z, n)
        for h in range(H):
            for t in range(T - 1):
                u = elem(U, n, h, t + 1) if variant == "gain_next_unit" else elem(U, n, h, t)
                acc = acc + u * (elem(S, n, h, t + 1) - elem(S, n, h, t))
            if cost is not None:
                ch = cost[h]
                for t in range(T - 1):
                    px = elem(S, n, h, t) if variant == "cost_at_prev_price" else elem(S, n, h, t + 1)
                    acc = acc - ch * api.absv(elem(U, n, h, t + 1) - elem(U, n, h, t)) * px
                if first or variant == "always_first":
                    acc = acc - ch * api.absv(elem(U, n, h, 0)) * elem(S, n, h, 0)
        out.append(acc)
    return out


def functional_case(N, H, T, cost_kind, first, with_payoff=True, controls=False, use_alias=False):
    from pfhedge.nn import functional as F

    def fn(c):
        S = api.tensor(c, "S", (N, H, T))
        U = api.tensor(c, "u", (N, H, T))
        Z = api.tensor(c, "Z", (N,)) if with_payoff else None
        if cost_kind == "none":
            cost = None
        elif cost_kind == "zero":
            cost = [0.0] * H
        elif cost_kind == "sym":
            cost = [api.real(c, "c%d" % h) for h in range(H)]
        else:  # mixed
            cost = [api.real(c, "c%d" % h) if h % 2 == 0 else 0.0 for h in range(H)]
        f = F.terminal_value if use_alias else F.pl
        kw = dict(spot=S, unit=U, cost=cost, payoff=Z, deduct_first_cost=first)
        out = f(**kw)
        c.check("shape", tuple(out.shape) == (N,))
        want = oracle_pl(N, H, T, S, U, Z, cost, first)
        for n in range(N):
            c.check("pl[%d]" % n, api.eq(elem(out, n), want[n]))
        if controls and cost is not None and cost_kind == "sym":
            for variant in ("cost_at_prev_price", "gain_next_unit") + (() if first else ("always_first",)):
                bad = oracle_pl(N, H, T, S, U, Z, cost, first, variant)
                c.control("control:%s" % variant, api.eq(elem(out, 0), bad[0]))

    return fn


def errors_case():
    from pfhedge.nn import functional as F

    def fn(c):
        S = api.tensor(c, "S", (2, 1, 3))
        U = api.tensor(c, "u", (2, 1, 3))
        U2 = api.tensor(c, "u2", (2, 1, 2))
        Z2 = api.tensor(c, "Z2", (2, 1))
        Z3 = api.tensor(c, "Z3", (3,))
        for name, kw in (("unit-size", dict(spot=S, unit=U2)), ("payoff-2d", dict(spot=S, unit=U, payoff=Z2)),
                         ("payoff-len", dict(spot=S, unit=U, payoff=Z3))):
            try:
                F.pl(**kw)
                raised = False
            except RuntimeError:
                raised = True
            c.check("raises:" + name, raised)
        c.check("reach", api.eq(elem(S, 0, 0, 0), elem(S, 0, 0, 0) + 0))
        c.control("control:reach", api.eq(elem(S, 0, 0, 0), elem(S, 0, 0, 1)))

    return fn


def hedger_case(N, T, hedge_kind, deriv_kind, stepwise, portfolio=False, controls=False):
    """Hedger.compute_pl / compute_portfolio / compute_pnl == identity on the hedge's own data."""

    def fn(c):
        env = cm.market(c, N, T, deriv_kind=deriv_kind, hedge_kind=hedge_kind, cost_sym=True)
        deriv, hedge = env["derivative"], env["hedge"]
        if stepwise:
            # a contract clause (cap on the payoff): the hedger's P&L is against the derivative's payoff *with* its clauses
            cap = api.real(c, "cap")
            deriv.add_clause("cap", lambda d, p: torch.minimum(p, p * 0 + cap))
        H = len(hedge) if hedge is not None else 1
        if deriv_kind == "variance_swap":
            inputs = ["underlier_spot", "volatility"] + (["prev_hedge"] if stepwise else [])
        else:
            inputs = ["log_moneyness", "time_to_maturity", "volatility"] + (["prev_hedge"] if stepwise else [])
        hedger = cm.make_hedger(c, inputs, H)
        if portfolio:
            out = hedger.compute_portfolio(deriv, hedge=hedge)
        else:
            out = hedger.compute_pl(deriv, hedge=hedge)
        hl = hedge if hedge is not None else [deriv.ul()]
        S = torch.stack([h.spot for h in hl], dim=1)
        U = hedger.compute_hedge(deriv, hedge=hedge)
        cost = [h.cost for h in hl]
        Z = None if portfolio else deriv.payoff()
        c.check("shape", tuple(out.shape) == (N,) and tuple(U.shape) == (N, H, T))
        want = oracle_pl(N, H, T, S, U, Z, cost, True)
        for n in range(N):
            c.check("hedger_pl[%d]" % n, api.eq(elem(out, n), want[n]))
        if controls:
            bad = oracle_pl(N, H, T, S, U, Z, cost, True, "cost_at_prev_price")
            c.control("control:cost_at_prev_price", api.eq(elem(out, 0), bad[0]))
            bad = oracle_pl(N, H, T, S, U, Z, cost, False)
            c.control("control:no_first_cost", api.eq(elem(out, 0), bad[0]))

    return fn


def cases():
    cs = []
    enc = ("pfhedge.nn.functional.pl", "pfhedge.nn.functional.terminal_value")
    for (N, H, T) in ((1, 1, 2), (2, 2, 3), (2, 2, 4)):
        for cost_kind in ("none", "zero", "sym", "mixed"):
            for first in (True, False):
                cs.append(Case("pl/N%dH%dT%d/%s/first=%s" % (N, H, T, cost_kind, first),
                               functional_case(N, H, T, cost_kind, first, controls=(N, H, T) == (2, 2, 3)),
                               encodes=enc, bounds="N=%d H=%d T=%d, all real spot/unit/payoff/cost" % (N, H, T)))
    cs.append(Case("pl/alias/no-payoff", functional_case(2, 1, 3, "sym", True, with_payoff=False, use_alias=True), encodes=enc,
                   bounds="N=2 H=1 T=3"))
    cs.append(Case("pl/errors", errors_case(), encodes=enc, bounds="mismatched sizes"))
    for (N, H, T) in ((3, 3, 5), (2, 3, 6), (3, 1, 6)):
        for cost_kind in ("sym", "mixed"):
            for first in (True, False):
                cs.append(Case("pl/N%dH%dT%d/%s/first=%s" % (N, H, T, cost_kind, first),
                               functional_case(N, H, T, cost_kind, first), tier="thorough", timeout=120,
                               encodes=enc, bounds="N=%d H=%d T=%d" % (N, H, T)))
    henc = ("pfhedge.nn.Hedger.compute_pl", "pfhedge.nn.Hedger.compute_portfolio", "pfhedge.nn.Hedger.compute_hedge",
            "pfhedge.features.FeatureList.get", "BaseDerivative.payoff", "BaseDerivative.spot (listed)")
    for hedge_kind in ("underlier", "two_primaries", "primary_plus_listed"):
        for stepwise in (False, True):
            for portfolio in (False, True):
                cs.append(Case("hedger/%s/step=%s/portfolio=%s" % (hedge_kind, stepwise, portfolio),
                               hedger_case(2, 3, hedge_kind, "european", stepwise, portfolio,
                                           controls=(hedge_kind == "underlier" and not portfolio)),
                               encodes=henc, bounds="N=2 T=3, uninterpreted row-wise model", timeout=60))
    for deriv_kind in ("lookback", "european_binary", "american_binary", "variance_swap"):
        cs.append(Case("hedger/underlier/%s" % deriv_kind, hedger_case(2, 4, "underlier", deriv_kind, False),
                       tier="thorough", encodes=henc, bounds="N=2 T=4", timeout=120))
    cs.append(Case("hedger/primary_plus_listed/T5", hedger_case(3, 5, "primary_plus_listed", "european", True),
                   tier="thorough", encodes=henc, bounds="N=3 T=5 H=2", timeout=180))
    return cs
