"""vcheck entry point:  python -m harness.run <Cxx> --tier quick|thorough [--only GLOB] [--jobs N] [--replay FILE]"""
import argparse
import importlib
import json
import os
import sys

ROOT = os.path.dirname(os.path.dirname(os.path.abspath(__file__)))
sys.path.insert(0, ROOT)

from harness import lib  # noqa: E402


def main():
    ap = argparse.ArgumentParser()
    ap.add_argument("prop")
    ap.add_argument("--tier", default=os.environ.get("VERIF_TIER", "quick"), choices=["quick", "thorough"])
    ap.add_argument("--only", default=None)
    ap.add_argument("--jobs", type=int, default=None)
    ap.add_argument("--replay", default=None)
    a = ap.parse_args()
    modname = "harness.%s" % a.prop.lower()
    try:
        mod = importlib.import_module(modname)
    except ModuleNotFoundError:
        print("no harness for", a.prop)
        return lib.EXIT_USAGE
    meta = dict(getattr(mod, "META", {}))
    meta["module"] = modname
    if a.replay:
        rec = json.load(open(a.replay))
        for case in mod.cases():
            if case.name == rec["case"]:
                rp = lib.replay_goal(case, rec.get("model") or {}, rec["goal"])
                print(json.dumps(rp, indent=1, default=str))
                if rp["reproduced"]:
                    print("VIOLATION property=%s replay=%s" % (a.prop, a.replay))
                    return lib.EXIT_VIOLATION
                return lib.EXIT_OK
        print("case not found:", rec["case"])
        return lib.EXIT_USAGE
    return lib.run_property(a.prop, modname, a.tier, meta, jobs=a.jobs, only=a.only)


if __name__ == "__main__":
    sys.exit(main())
