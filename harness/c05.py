"""C05 — risk-measure values equal their mathematical definitions."""
import itertools
import math
from fractions import Fraction

import numpy as np
import torch

from harness.lib import Case
from harness.stubs import NotElementwise, patched_bisect
from symtorch import api, ctx as cx, facades, terms as tm
from symtorch import tensor as st
from symtorch.api import elem

META = {
    "stubs": ["bisect: assume-guarantee contract stub with call-site precondition checks (the real bisect is verified in C19)",
              "int(math.log10(spread)) in quadratic_cvar: the decade is fixed per case and the corresponding range of the spread is assumed"],
    "axioms": ["order statistics as comparison networks of ite; log product law (log-sum-exp vs log-mean-exp), exp positivity/monotonicity; "
               "math.log(N) recognised as the exact log(N)"],
    "assumptions": ["exact reals: 'without overflow for any finite input' (a floating-point statement about logsumexp) is outside the claim",
                    "sample sizes N<=6, trailing shapes M<=2, K<=2",
                    "value at risk: stated up to 1e-9*(max-min) because 1/N is a rounded double in the source (the property itself accepts either "
                    "adjacent order statistic within 1e-9 of a boundary)",
                    "quadratic CVaR: minimality up to lam*precision^2 (the bisection tolerance), spread decade fixed per case",
                    "isoelastic utility on positive wealth only"],
}


def k_smallest_sum(xs, k):
    """sum of the k smallest of xs, characterised without sorting: the minimum over all k-subsets of the subset sum"""
    sums = [sum(sub[1:], sub[0]) for sub in itertools.combinations(xs, k)]
    return api.minv(*sums) if len(sums) > 1 else sums[0]


def columns(x, dim):
    """list of (output index, list of elements along dim) for a tensor reduced along dim (None = flattened)"""
    shape = tuple(x.shape)
    if dim is None:
        return [((), [elem(x, *idx) for idx in np.ndindex(*shape)])]
    d = dim % len(shape)
    out = []
    rest = [range(s) for i, s in enumerate(shape) if i != d]
    for idx in itertools.product(*rest):
        col = []
        for j in range(shape[d]):
            full = list(idx)
            full.insert(d, j)
            col.append(elem(x, *full))
        out.append((idx, col))
    return out


def reduced_shape_ok(c, name, out, x, dim):
    """the result has one entry per column of the sample (checked before any entry is read)"""
    shape = tuple(x.shape)
    want = () if dim is None else tuple(s_ for i, s_ in enumerate(shape) if i != dim % len(shape))
    ok = tuple(out.shape) == want
    c.check("%s: result shape %s" % (name, list(want)), ok)
    return ok


def es_case(shape, dim, p, via="functional", sym_p=False):
    from pfhedge.nn import functional as F
    from pfhedge.nn import ExpectedShortfall

    def fn(c):
        x = api.tensor(c, "x", shape)
        n = int(np.prod(shape)) if dim is None else shape[dim]
        if sym_p:
            pp = api.real(c, "p", pos=True, hi=1)
        else:
            pp = p
        tgt = None
        if via == "functional":
            out = F.expected_shortfall(x, pp, dim=dim)
            src = x
        else:
            tgt = api.tensor(c, "target", shape)
            with facades.real_torch():
                m = ExpectedShortfall(p if not sym_p else 0.5)
            m.p = pp
            out = m(x, tgt)
            src = x - tgt
        if sym_p:
            k = int(api.ceilv(pp * n))
        else:
            k = math.ceil(p * n)
        cols = columns(src, dim)
        oshape = tuple(s for i, s in enumerate(shape) if dim is not None and i != dim % len(shape))
        c.check("ES shape", tuple(out.shape) == oshape)
        if tuple(out.shape) != oshape:
            return
        for idx, col in cols:
            want = -k_smallest_sum(col, k) / k
            c.check("ES%s = -mean of the %d worst of %d" % (list(idx), k, n), api.eq(elem(out, *idx), want))
        if not sym_p and n >= 3 and 1 < k < n:
            idx, col = cols[0]
            c.control("control:ES averages one outcome too many", api.eq(elem(out, *idx), -k_smallest_sum(col, k + 1) / (k + 1)))
        tp = F.topp(src if via == "functional" else x, pp, dim=dim if dim is not None else None, largest=False) if via == "functional" and dim is not None else None
        if tp is not None:
            c.check("topp returns ceil(p*N) values along dim", tp.values.shape[dim % len(shape)] == k)

    return fn


def var_case(shape, dim, p):
    from pfhedge.nn import functional as F

    def fn(c):
        x = api.tensor(c, "x", shape)
        out = F.value_at_risk(x, p, dim=dim)
        n = int(np.prod(shape)) if dim is None else shape[dim]
        if not reduced_shape_ok(c, "VaR", out, x, dim):
            return
        for idx, col in columns(x, dim):
            o = elem(out, *idx)
            lo, hi = api.minv(*col), api.maxv(*col)
            slack = (hi - lo) * Fraction(1, 10 ** 9)
            pn = Fraction(p).limit_denominator(1000) * n
            if Fraction(p).limit_denominator(1000) * n <= 1:
                c.check("VaR%s is the minimum for p <= 1/N" % list(idx), api.eq(o, lo))
            elif Fraction(p).limit_denominator(1000) > 1 - Fraction(1, n):
                c.check("VaR%s is the maximum for p > 1-1/N" % list(idx), api.eq(o, hi))
            else:
                c.check("VaR%s between min and max" % list(idx), api.all_(api.ge(o, lo), api.le(o, hi)))
                if pn.denominator == 1:
                    k = int(pn)
                    # k-th worst outcome by counting: at least k entries <= v and at least n-k+1 entries >= v (up to the slack)
                    below = sum((api.ite(api.le(e, o + slack), 1, 0) for e in col[1:]), api.ite(api.le(col[0], o + slack), 1, 0))
                    above = sum((api.ite(api.ge(e, o - slack), 1, 0) for e in col[1:]), api.ite(api.ge(col[0], o - slack), 1, 0))
                    c.check("VaR%s is the %d-th worst of %d (counting)" % (list(idx), k, n), api.all_(api.ge(below, k), api.ge(above, n - k + 1)))
                    kth = k_order_stat(col, k)
                    c.check("VaR%s within 1e-9*(max-min) of the %d-th order statistic" % (list(idx), k), api.le(api.absv(o - kth), slack))
                    if 1 < k < n:
                        c.control("control:VaR is the (k+1)-th worst", api.le(api.absv(o - k_order_stat(col, k + 1)), slack))

    return fn


def k_order_stat(col, k):
    """k-th smallest (1-based): max over... = (sum of k smallest) - (sum of k-1 smallest)"""
    if k == 1:
        return api.minv(*col)
    return k_smallest_sum(col, k) - k_smallest_sum(col, k - 1)


def var_monotone_case(n):
    from pfhedge.nn import functional as F

    def fn(c):
        x = api.tensor(c, "x", (n,))
        ps = [Fraction(j, 2 * n) for j in range(1, 2 * n + 1)]
        vals = [elem(F.value_at_risk(x, float(p))) for p in ps]
        for a, b, pa, pb in zip(vals, vals[1:], ps, ps[1:]):
            c.check("VaR non-decreasing in p: %s -> %s" % (pa, pb), api.le(a, b))

    return fn


def entropic_case(shape, via):
    from pfhedge.nn import functional as F
    from pfhedge import nn

    def fn(c):
        x = api.tensor(c, "x", shape)
        a = api.real(c, "a", pos=True)
        n = shape[0]
        if via == "functional":
            out, src = F.entropic_risk_measure(x, a), x
        else:
            tgt = api.tensor(c, "target", shape)
            with facades.real_torch():
                m = nn.EntropicRiskMeasure(1.0)
            m.a = a
            out, src = m(x, tgt), x - tgt
        if not reduced_shape_ok(c, "entropic risk", out, src, 0):
            return
        for idx, col in columns(src, 0):
            tot = sum((api.exp(-a * e) for e in col[1:]), api.exp(-a * col[0]))
            c.check("entropic risk%s = (1/a) log mean exp(-a x)" % list(idx), api.eq(elem(out, *idx), api.log(tot / n) / a))
        idx, col = columns(src, 0)[0]
        tot = sum((api.exp(-a * e) for e in col[1:]), api.exp(-a * col[0]))
        if n > 1:
            c.control("control:entropic risk without the 1/N", api.eq(elem(out, *idx), api.log(tot) / a))

    return fn


def utility_case():
    from pfhedge.nn import functional as F
    from pfhedge import nn

    def fn(c):
        shape = (3, 2)
        x = api.tensor(c, "x", shape, pos=True)
        tgt = api.tensor(c, "target", shape)
        a = api.real(c, "a", pos=True)
        g = api.real(c, "g", pos=True, hi=1)
        eu = F.exp_utility(x, a)
        for idx in np.ndindex(*shape):
            c.check("exp_utility%s" % list(idx), api.eq(elem(eu, *idx), -api.exp(-a * elem(x, *idx))))
        lg = F.isoelastic_utility(x, 1.0)
        iso = F.isoelastic_utility(x, 0.5)
        for idx in np.ndindex(*shape):
            c.check("isoelastic a=1 is log%s" % list(idx), api.eq(elem(lg, *idx), api.log(elem(x, *idx))))
            c.check("isoelastic a=1/2 is sqrt%s" % list(idx), api.eq(elem(iso, *idx), api.sqrt(elem(x, *idx))))
        with facades.real_torch():
            el_, il, il1 = nn.EntropicLoss(1.0), nn.IsoelasticLoss(0.5), nn.IsoelasticLoss(1.0)
        el_.a = a
        wealth = api.tensor(c, "w", shape, pos=True)
        # the target is subtracted first; keep the wealth positive by construction: input = wealth + target
        inp = wealth + tgt
        o1, o2, o3 = el_(x, tgt), il(inp, tgt), il1(inp, tgt)
        n = shape[0]
        for j in range(shape[1]):
            col = [elem(x, i, j) - elem(tgt, i, j) for i in range(n)]
            c.check("EntropicLoss[%d] = -mean u(x - target)" % j, api.eq(elem(o1, j), sum((api.exp(-a * e) for e in col[1:]), api.exp(-a * col[0])) / n))
            wcol = [elem(wealth, i, j) for i in range(n)]
            c.check("IsoelasticLoss(1/2)[%d] = -mean sqrt" % j, api.eq(elem(o2, j), -sum((api.sqrt(e) for e in wcol[1:]), api.sqrt(wcol[0])) / n))
            c.check("IsoelasticLoss(1)[%d] = -mean log" % j, api.eq(elem(o3, j), -sum((api.log(e) for e in wcol[1:]), api.log(wcol[0])) / n))
        c.control("control:EntropicLoss ignores the target", api.eq(elem(o1, 0), sum((api.exp(-a * elem(x, i, 0)) for i in range(1, n)), api.exp(-a * elem(x, 0, 0))) / n))
        # OCE = w - mean u(x + w)
        with facades.real_torch():
            oce = __import__('pfhedge.nn.modules.loss', fromlist=['OCE']).OCE(lambda t: 1 - (-t).exp())
        w = api.tensor(c, "oce_w", ())
        oce._parameters["w"] = w
        oo = oce(x, tgt)
        ww = elem(w)
        for j in range(shape[1]):
            col = [elem(x, i, j) - elem(tgt, i, j) + ww for i in range(n)]
            c.check("OCE[%d] = w - mean u(x - target + w)" % j, api.eq(elem(oo, j), ww - sum(((1 - api.exp(-e)) for e in col[1:]), (1 - api.exp(-col[0]))) / n))

    return fn


def qcvar_case(N, M, decade, via="functional", controls=False, lam_value=None, foc=False):
    from pfhedge.nn import functional as F
    from pfhedge import nn

    def fn(c):
        c.env["log10_decade"] = decade
        shape = (N, M) if M else (N,)
        x = api.tensor(c, "x", shape, lo=-3, hi=3)
        lam = api.real(c, "lam", lo=1, hi=20) if lam_value is None else lam_value
        with patched_bisect(c, name="quadratic_cvar->bisect", check_preconditions=False) as stub:
            if via == "functional":
                out = F.quadratic_cvar(x, lam, dim=0 if M else None)
                src = x
            else:
                tgt = api.tensor(c, "target", shape, lo=-1, hi=1)
                with facades.real_torch():
                    m = nn.QuadraticCVaR(10.0)
                m.lam = lam
                out = m(x, tgt)
                src = x - tgt
        if c.mode == "concrete":
            # replay guard: the spread must be in the decade that was assumed symbolically
            neg = -src
            spread = float((neg.amax(0) - neg.amin(0) + 2e-8).max())
            if not (10.0 ** decade <= spread < 10.0 ** (decade + 1)):
                return
        # the precision the code asks of its search (today 1e-6 * 10 ** int(log10(spread))); the minimality claims below are stated up
        # to lam * precision^2, so the precision itself is only required to resolve the spread to four digits
        prec = max(k_["precision"] for k_ in stub.calls)
        c.check("the search resolves the spread to at least four digits (precision <= 1e-4 * 10^decade)", prec <= 1e-4 * 10 ** int(decade + 0.5) * (1 + 1e-9))
        cols = columns(src, 0 if M else None)
        w = api.real(c, "w_any")
        c.check("the minimiser is found by a bisection search", len(stub.calls) >= 1)
        if not reduced_shape_ok(c, "quadratic CVaR", out, src, 0 if M else None):
            return
        for idx, col in cols:
            v = elem(out, *idx)
            obj = w + lam * sum((api.maxv(-w - e, 0) * api.maxv(-w - e, 0) for e in col[1:]), api.maxv(-w - col[0], 0) * api.maxv(-w - col[0], 0)) / len(col)
            mean = sum(col[1:], col[0]) / len(col)
            g1 = api.le(v, obj + lam * prec * prec, tol=1e-9)
            g2 = api.ge(v, -mean - 1 / (4 * lam) - lam * prec * prec, tol=1e-9)
            # The claim is split by a region of the *inputs* (independent of the code), so that the recorded finding
            # F1 (samples whose spread is so small that every outcome is in the tail at the optimum) masks nothing else:
            #   small spread  <=>  mean_i(max(x) - x_i) + 1e-8 < 1/(2 lam)
            mx = api.maxv(*col)
            small = api.lt(mx - mean + Fraction(1, 10 ** 8), 1 / (2 * lam))
            if not foc:
                c.check("quadratic CVaR%s <= w + lam*mean(relu(-w-x)^2) for every w [regular sample]" % list(idx), api.implies(api.not_(small), g1))
                c.check("quadratic CVaR%s >= -mean - 1/(4 lam) [regular sample]" % list(idx), api.implies(api.not_(small), g2))
                c.check("quadratic CVaR%s <= w + lam*mean(relu(-w-x)^2) for every w [small-spread sample]" % list(idx), api.implies(small, g1))
            else:
                # larger samples: first-order optimality of the point the value is computed at (convex objective; the
                # bound value - min <= lam*precision^2 then follows from a stated lemma) and the value formula itself
                u = elem(stub.calls[0]["out"], *([0] + list(idx))) if M else elem(stub.calls[0]["out"], 0)
                cen = [e - mean for e in col]
                tail = sum((api.maxv(-u - e, 0) for e in cen[1:]), api.maxv(-u - cen[0], 0)) / len(col)
                foc_ok = api.all_(api.le(tail, 1 / (2 * lam) + prec, tol=1e-9), api.ge(tail, 1 / (2 * lam) - prec, tol=1e-9))
                c.check("quadratic CVaR%s is evaluated at a stationary point: |mean(relu(-w*-x)) - 1/(2 lam)| <= precision [regular sample]" % list(idx),
                        api.implies(api.not_(small), foc_ok))
                c.check("quadratic CVaR%s is evaluated at a stationary point [small-spread sample]" % list(idx), api.implies(small, foc_ok))
                sq = sum((api.maxv(-u - e, 0) * api.maxv(-u - e, 0) for e in cen[1:]), api.maxv(-u - cen[0], 0) * api.maxv(-u - cen[0], 0)) / len(col)
                c.check("quadratic CVaR%s = w* + lam*mean(relu(-w*-x)^2) at that point" % list(idx), api.eq(v, u + lam * sq - mean, tol=1e-9))
        if controls:
            idx, col = cols[0]
            c.control("control:quadratic CVaR equals -min", api.eq(elem(out, *idx), -api.minv(*col)))

    return fn


def cases():
    cs = []
    enc = ("exp_utility", "isoelastic_utility", "entropic_risk_measure", "topp", "expected_shortfall", "value_at_risk", "quadratic_cvar",
           "EntropicRiskMeasure/EntropicLoss/IsoelasticLoss/ExpectedShortfall/QuadraticCVaR/OCE.forward")
    lin = ("basic",)
    # expected shortfall
    for (shape, dim) in (((4,), None), ((4,), 0), ((4, 2), 0), ((2, 4), 1), ((2, 4), -1), ((3, 2, 2), 0), ((2, 3, 2), 1)):
        n = int(np.prod(shape)) if dim is None else shape[dim]
        for p in sorted({1.0, 0.5, 1 / n, 0.3, 0.75, 0.1}):
            cs.append(Case("es/%s/dim=%s/p=%.3g" % ("x".join(map(str, shape)), dim, p), es_case(shape, dim, p), encodes=enc, families=lin,
                           bounds="shape %s, dim %s, p=%.3g" % (shape, dim, p)))
    for p in (0.1, 0.5, 0.9):
        cs.append(Case("es/module/p=%.2g" % p, es_case((4, 2), 0, p, via="module"), encodes=enc, families=lin, bounds="ExpectedShortfall(p)(input, target), shape (4,2)"))
    cs.append(Case("es/symbolic-p/N4", es_case((4,), 0, None, sym_p=True), encodes=enc, families=lin, bounds="N=4, all p in (0,1]: explorer forks over ceil(p*N)", max_paths=16))
    for n in (5, 6):
        for p in (0.5, 0.75, 0.2, 0.34):
            cs.append(Case("es/N%d/p=%.3g" % (n, p), es_case((n,), 0, p), tier="thorough", encodes=enc, families=lin, bounds="N=%d" % n, timeout=300))
    cs.append(Case("es/symbolic-p/N6", es_case((6,), 0, None, sym_p=True), tier="thorough", encodes=enc, families=lin, bounds="N=6 symbolic p", max_paths=16, timeout=300))
    # value at risk
    for (shape, dim) in (((4,), None), ((5,), 0), ((4, 2), 0), ((2, 4), 1)):
        n = int(np.prod(shape)) if dim is None else shape[dim]
        for p in sorted({1 / n, 2 / n, 0.5, 1 - 1 / n, 1.0, 0.05, 0.62}):
            cs.append(Case("var/%s/dim=%s/p=%.3g" % ("x".join(map(str, shape)), dim, p), var_case(shape, dim, p), encodes=enc, families=lin,
                           bounds="shape %s dim %s p=%.3g" % (shape, dim, p), batch=False))
    cs.append(Case("var/monotone/N4", var_monotone_case(4), encodes=enc, families=lin, bounds="N=4, p on a grid of 8 levels"))
    cs.append(Case("var/monotone/N6", var_monotone_case(6), tier="thorough", encodes=enc, families=lin, bounds="N=6, 12 levels", timeout=300))
    # entropic
    for shape in ((1,), (2,), (3,), (2, 2)):
        cs.append(Case("entropic/functional/%s" % "x".join(map(str, shape)), entropic_case(shape, "functional"), encodes=enc,
                       families=("basic",), bounds="shape %s, all a>0" % (shape,), batch=False))
    cs.append(Case("entropic/module/3x2", entropic_case((3, 2), "module"), encodes=enc, families=("basic",), bounds="EntropicRiskMeasure(a)(input, target)", batch=False))
    cs.append(Case("entropic/functional/5x2", entropic_case((5, 2), "functional"), tier="thorough", encodes=enc, families=("basic",), bounds="N=5 M=2", batch=False, timeout=300))
    cs.append(Case("utilities+losses+OCE", utility_case(), encodes=enc, families=("basic",), bounds="shape (3,2); symbolic a, target, OCE parameter w", batch=False, timeout=60))
    # quadratic CVaR
    for (N, M, d) in ((2, 0, 0), (2, 2, 0), (2, 0, -1), (1, 0, -8)):
        cs.append(Case("qcvar/N%dM%d/decade%d" % (N, M, d), qcvar_case(N, M, d, controls=(N == 2 and M == 0)), encodes=enc, families=("basic",),
                       bounds="N=%d M=%d, spread in [1e%d,1e%d), 1<=lam<=20, |x|<=3" % (N, M, d, d + 1), batch=False, timeout=120, max_paths=16))
    cs.append(Case("qcvar/N3M0/decade0/stationarity", qcvar_case(3, 0, 0, foc=True), encodes=enc, families=("basic",),
                   bounds="N=3, symbolic lam, spread in [1,10): first-order optimality + value formula", batch=False, timeout=120, max_paths=16))
    cs.append(Case("qcvar/N4M2/decade0/stationarity", qcvar_case(4, 2, 0, foc=True), encodes=enc, families=("basic",),
                   bounds="N=4 M=2", batch=False, timeout=120, max_paths=16))
    for (N, M, d) in ((3, 0, -1), (5, 0, 0), (6, 2, 0)):
        cs.append(Case("qcvar/N%dM%d/decade%d/stationarity" % (N, M, d), qcvar_case(N, M, d, foc=True), tier="thorough", encodes=enc,
                       families=("basic",), bounds="N=%d M=%d" % (N, M), batch=False, timeout=300, max_paths=16))
    cs.append(Case("qcvar/module/N2M1", qcvar_case(2, 1, 0, via="module"), encodes=enc, families=("basic",), bounds="QuadraticCVaR(lam)(input, target)", batch=False, timeout=120, max_paths=16))
    return cs
