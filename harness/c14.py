"""C14 — loss gradients through the hedger are the true gradients."""
from fractions import Fraction

import numpy as np
import torch

from harness.lib import Case
from harness import common as cm
from harness.stubs import NotElementwise, patched_bisect
from symtorch import api, autograd as ag, ctx as cx, facades, terms as tm
from symtorch import tensor as st
from symtorch.api import elem

META = {
    "stubs": ["simulate(): fresh symbolic buffers", "torch autograd: requires_grad_/backward/autograd.grad are served by symbolic differentiation of the "
              "executed loss term; detach(), .data and every result computed while grad is disabled become stop-gradient variables (value kept, "
              "invisible to the autograd derivative)", "quadratic CVaR: bisect contract stub, its output treated as locally constant (envelope theorem)"],
    "axioms": ["polynomial / ite arithmetic; exp/log/sqrt derivative rules"],
    "assumptions": ["autograd is modelled on terms: what torch saves for backward (and its version counters) is not modelled, so an in-place write through .data into a tensor saved for backward is outside the claim (seed C14-r6m1)", "the hedging model is a linear layer with symbolic weights and bias (recurrent through prev_hedge in the stepwise branch); "
                    "gradients are compared on the open set where every ite guard (|du| = 0, ties in topk, relu kinks) is strict",
                    "D_true = symbolic derivative of the loss value term with every stop-gradient definition substituted (the role finite differences "
                    "play in the replay); numerical accuracy of torch's autograd kernels is outside the claim",
                    "N<=2 paths, T=3 steps, H<=2"],
}


class NoTransactionBand(torch.nn.Module):
    """prev_hedge clamped into a band [x - w, x + w] whose centre x comes from a trainable layer (pfhedge.nn.Clamp / LeakyClamp)"""

    def __init__(self, lin, leaky):
        super().__init__()
        from pfhedge.nn import Clamp, LeakyClamp

        self.lin = lin
        self.clamp = LeakyClamp(clamped_slope=0.25) if leaky else Clamp()

    def forward(self, input):
        prev = input[..., [-1]]
        x = self.lin(input[..., :-1])
        return self.clamp(prev, x - 0.125, x + 0.125)


class Squash(torch.nn.Module):
    """a parameter-free preprocessing module"""

    def forward(self, x):
        return x * 0.5 + x.square() * 0.125


def build(c, N, T, H, stepwise, cost_pos, crit_name, eval_mode=False, band=None, module_feature=False):
    from pfhedge import nn
    from pfhedge.nn.modules.loss import OCE

    hk = "underlier" if H == 1 else "two_primaries"
    env = cm.market(c, N, T, "european", hk, cost_sym=False)
    deriv, hedge = env["derivative"], env["hedge"]
    if cost_pos:
        for i, h in enumerate(hedge if hedge is not None else [deriv.ul()]):
            h.cost = api.real(c, "cost%d" % i, pos=True)
    feats = ["moneyness", "time_to_maturity"] + (["prev_hedge"] if stepwise else [])
    if module_feature:
        from pfhedge.features import ModuleOutput

        with facades.real_torch():
            feats = ["moneyness", ModuleOutput(Squash(), inputs=["time_to_maturity", "prev_hedge"])]
        F0 = 3
    F = len(feats) + (H - 1 if stepwise else 0)
    if module_feature:
        F = F0
    if band is not None:
        F -= 1  # the layer sees the market features, the band is applied to prev_hedge
    W = api.tensor(c, "W", (H, F), lo=-1, hi=1)
    b = api.tensor(c, "b", (H,), lo=-1, hi=1)
    with facades.real_torch():
        lin = torch.nn.Linear(F, H).double()
        crit = {"entropic": lambda: nn.EntropicRiskMeasure(1.0), "es": lambda: nn.ExpectedShortfall(0.5), "entropic_loss": lambda: nn.EntropicLoss(1.0),
                "isoelastic": lambda: nn.IsoelasticLoss(0.5), "oce": lambda: OCE(lambda t: 1 - (-t).exp()), "mse": lambda: torch.nn.MSELoss(),
                "l1": lambda: torch.nn.L1Loss(), "qcvar": lambda: nn.QuadraticCVaR(2.0)}[crit_name]()
    if c.mode == "sym":
        lin.weight = torch.nn.Parameter(W)
        lin.bias = torch.nn.Parameter(b)
    else:
        lin.weight = torch.nn.Parameter(W.clone())
        lin.bias = torch.nn.Parameter(b.clone())
    params = [lin.weight, lin.bias]
    if crit_name == "oce":
        w = api.tensor(c, "oce_w", (), lo=-1, hi=1)
        crit.w = torch.nn.Parameter(w if c.mode == "sym" else w.clone())
        params.append(crit.w)
    model = lin
    if band is not None:
        with facades.real_torch():
            model = NoTransactionBand(lin, leaky=(band == "leaky"))
    hedger = cm.make_hedger(c, feats, H, criterion=crit, model=model)
    if eval_mode:
        hedger.eval()
    return deriv, hedge, hedger, params, crit


def loss_of(c, hedger, deriv, hedge, crit_name):
    if crit_name in ("mse", "l1"):
        return hedger.criterion(hedger.compute_portfolio(deriv, hedge), deriv.payoff())
    if crit_name == "isoelastic":
        # positive wealth: shift the P&L by a constant
        return hedger.criterion(hedger.compute_pl(deriv, hedge) + 5.0)
    return hedger.criterion(hedger.compute_pl(deriv, hedge))


def grad_case(N, T, H, stepwise, cost_pos, crit_name, eval_mode=False, sabotage=False, band=None, module_feature=False, n_times=None, after_price=False):
    def fn(c):
        c.env["log10_decade"] = 0
        c.env["track_grad"] = True
        deriv, hedge, hedger, params, crit = build(c, N, T, H, stepwise, cost_pos, crit_name, eval_mode, band, module_feature)
        if n_times or after_price:
            from harness.c06 import SimStub

            sim = SimStub(c, deriv, N, T)
            spots = []
        if after_price:
            # the hedger has been used without gradients before (price(): simulate + hedge under no_grad); a loss built afterwards
            # through compute_pl / compute_portfolio must still be connected to every parameter path, the recurrent one included
            with patched_bisect(c, check_preconditions=False):
                hedger.price(deriv, hedge=hedge, n_paths=N)
        if sabotage:
            # negative control: a second forward hook that stores a detached previous output (what a careless edit of
            # save_prev_output would do); the gradient obligations below must then come back violated
            hedger.register_forward_hook(lambda m, i, o: m.register_buffer("prev_output", o.detach(), persistent=False))
        chk = c.control if sabotage else c.check
        with patched_bisect(c, check_preconditions=False):
            if n_times:
                loss = hedger.compute_loss(deriv, hedge=hedge, n_paths=N, n_times=n_times)
            else:
                loss = loss_of(c, hedger, deriv, hedge, crit_name)
            c.check("loss is a scalar", tuple(loss.shape) == ())
            c.check("loss requires grad", bool(loss.requires_grad))
            loss.backward()
            if c.mode == "sym":
                leaves = set()
                for p in params:
                    leaves |= set(p._p.reshape(-1))
                lt = ag.resolve(st.terms_of(loss)[0], c, keep=leaves)
                for pi, p in enumerate(params):
                    g = p.grad
                    c.check("param %d has a gradient" % pi, g is not None)
                    if g is None:
                        continue
                    for j, (v, ge) in enumerate(zip(p._p.reshape(-1), g._p.reshape(-1))):
                        # both sides are expressed in the original symbols (leaf variables substituted by their definitions)
                        true = ag.resolve(tm.D(lt, v), c)
                        auto = ag.resolve(ge, c)
                        if sabotage and (pi, j) != (0, 0):
                            continue
                        chk("%sd loss / d param%d[%d]: autograd == true derivative" % ("control:" if sabotage else "", pi, j), api.eq(api.SymReal(auto), api.SymReal(true)))
            else:
                h = 1e-6

                def value():
                    if not n_times:
                        return loss_of(c, hedger, deriv, hedge, crit_name).item()
                    tot = 0.0
                    for sp in sim.spots[:n_times]:
                        deriv.ul().register_buffer("spot", sp)
                        tot += loss_of(c, hedger, deriv, hedge, crit_name).item()
                    return tot / n_times

                for pi, p in enumerate(params):
                    g = p.grad
                    c.check("param %d has a gradient" % pi, g is not None)
                    if g is None:
                        continue
                    flat = p.data.view(-1)
                    for j in range(flat.numel()):
                        old = flat[j].item()
                        with torch.no_grad():
                            flat[j] = old + h
                            lp = value()
                            flat[j] = old - h
                            lm = value()
                            flat[j] = old
                        fd = (lp - lm) / (2 * h)
                        if sabotage and (pi, j) != (0, 0):
                            continue
                        chk("%sd loss / d param%d[%d]: autograd == true derivative" % ("control:" if sabotage else "", pi, j), api.eq(g.view(-1)[j].item(), fd, tol=2e-5))

    return fn


def nograd_case(crit_name):
    """documented evaluation-only quantities carry no graph"""

    def fn(c):
        from harness.c06 import SimStub

        c.env["track_grad"] = True
        N, T = 2, 3
        deriv, hedge, hedger, params, crit = build(c, N, T, 1, True, False, crit_name)
        sim = SimStub(c, deriv, N, T)
        l0 = hedger.compute_loss(deriv, n_paths=N, enable_grad=False)
        c.check("compute_loss(enable_grad=False) carries no graph", not bool(l0.requires_grad))
        l1 = hedger.compute_loss(deriv, n_paths=N)
        c.check("compute_loss() carries a graph", bool(l1.requires_grad))
        p0 = hedger.price(deriv, n_paths=N)
        c.check("price() carries no graph by default", not bool(p0.requires_grad))
        p1 = hedger.price(deriv, n_paths=N, enable_grad=True)
        c.check("price(enable_grad=True) carries a graph", bool(p1.requires_grad))
        c.check("grad mode restored", torch.is_grad_enabled())

    return fn


def cases():
    cs = []
    enc = ("Hedger.compute_hedge (both branches)", "save_prev_output", "PrevHedge.get", "Hedger.compute_portfolio/compute_pl", "pl",
           "EntropicRiskMeasure/ExpectedShortfall/EntropicLoss/IsoelasticLoss/OCE/QuadraticCVaR.forward", "torch.nn.MSELoss/L1Loss",
           "Hedger.compute_loss/price (enable_grad)", "torch.nn.Linear")
    fam = ("basic",)
    for crit in ("entropic", "es", "entropic_loss", "isoelastic", "oce", "mse", "l1", "qcvar"):
        for stepwise in (False, True):
            cost_pos = crit in ("es", "entropic", "qcvar")
            cs.append(Case("grad/%s/%s/cost=%s" % (crit, "stepwise" if stepwise else "vectorised", "pos" if cost_pos else "zero"),
                           grad_case(2, 3, 1, stepwise, cost_pos, crit), encodes=enc, families=fam, batch=True, timeout=120, max_paths=16,
                           bounds="N=2 T=3 H=1, symbolic linear model, paths, %s" % ("costs" if cost_pos else "zero cost")))
    cs.append(Case("grad/es/stepwise/eval-mode", grad_case(2, 3, 1, True, True, "es", eval_mode=True), encodes=enc, families=fam, timeout=120, max_paths=16,
                   bounds="hedger in eval mode, gradients enabled"))
    cs.append(Case("grad/entropic/stepwise/H2", grad_case(2, 3, 2, True, True, "entropic"), encodes=enc, families=fam, timeout=300, max_paths=16,
                   bounds="N=2 T=3 H=2", tier="thorough"))
    cs.append(Case("grad/es/vectorised/H2", grad_case(2, 3, 2, False, True, "es"), encodes=enc, families=fam, timeout=300, max_paths=16, bounds="N=2 T=3 H=2", tier="thorough"))
    for band in ("hard", "leaky"):
        cs.append(Case("grad/mse/no-transaction-band/%s" % band, grad_case(2, 3, 1, True, False, "mse", band=band), encodes=enc + ("pfhedge.nn.Clamp/LeakyClamp", "leaky_clamp"),
                       families=fam, timeout=120, max_paths=16, bounds="N=2 T=3, band model: prev_hedge clamped around a trainable centre"))
    cs.append(Case("grad/es/module-feature-over-prev_hedge", grad_case(2, 3, 1, True, False, "es", module_feature=True), encodes=enc + ("ModuleOutput.get/forward",),
                   families=fam, timeout=120, max_paths=16, bounds="N=2 T=3, a parameter-free ModuleOutput feature whose inputs include prev_hedge"))
    cs.append(Case("grad/es/stepwise/after-price", grad_case(2, 3, 1, True, False, "es", after_price=True), encodes=enc + ("Hedger.price",),
                   bounds="N=2 T=3: price() (no gradients) first, then the loss and its gradient on the same hedger", timeout=120))
    cs.append(Case("grad/entropic/compute_loss-n_times=2", grad_case(2, 3, 1, True, False, "entropic", n_times=2), encodes=enc + ("ensemble_mean",),
                   families=fam, timeout=120, max_paths=16, bounds="gradient of compute_loss(n_times=2): mean over two simulated batches"))
    cs.append(Case("control/detached-prev-output", grad_case(2, 3, 1, True, False, "mse", sabotage=True), encodes=enc, families=fam, timeout=120, max_paths=16,
                   bounds="negative control", batch=False))
    cs.append(Case("nograd/es", nograd_case("es"), encodes=enc, families=fam, timeout=60, bounds="compute_loss / price grad flags"))
    return cs
