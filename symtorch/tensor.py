"""SymTensor: a torch.Tensor wrapper subclass whose payload is a numpy object array of terms.
torch dispatches every function/method that sees a SymTensor to `__torch_function__`, which
routes to the handler table below.  An operation without a handler raises EngineUnsupported."""
from __future__ import annotations

import builtins
import math
from fractions import Fraction

import numpy as np
import torch

from . import ctx as cx
from . import elem as el
from . import terms as tm
from .ctx import EngineUnsupported, SymBool, SymInt, SymReal
from .terms import T

HANDLERS = {}
USED = set()

_NoTF = torch._C.DisableTorchFunctionSubclass


def handler(*names):
    def deco(f):
        for n in names:
            HANDLERS[n] = f
        return f

    return deco


class SymTensor(torch.Tensor):
    @staticmethod
    def __new__(cls, payload, dtype=None):
        payload = payload if isinstance(payload, np.ndarray) and payload.dtype == object else _objarr(payload)
        if dtype is None:
            dtype = torch.get_default_dtype()
        r = torch.Tensor._make_wrapper_subclass(cls, tuple(payload.shape), dtype=dtype, device="cpu")
        r._p = payload
        r._rg = False  # requires_grad
        r._leaf = True
        r._symgrad = None
        r._is_param = False
        return r

    def __init__(self, *a, **k):
        pass

    @classmethod
    def __torch_dispatch__(cls, func, types, args=(), kwargs=None):
        raise EngineUnsupported("__torch_dispatch__ reached: %s" % func)

    @classmethod
    def __torch_function__(cls, func, types, args=(), kwargs=None):
        kwargs = kwargs or {}
        name = getattr(func, "__name__", str(func))
        if name in ("__get__", "__set__", "__delete__"):
            name = name + ":" + getattr(getattr(func, "__self__", None), "__name__", "?")
        h = HANDLERS.get(name)
        if h is None:
            if name in PASSTHROUGH:
                with _NoTF():
                    return func(*args, **kwargs)
            raise EngineUnsupported("no handler for torch op %r" % name)
        USED.add(name)
        out = h(*args, **kwargs)
        return _post(out)

    def __repr__(self):
        return "SymTensor(shape=%s, %s)" % (tuple(self._p.shape), _short(self._p))

    # Python-level operators go straight to the handlers (torch's C argument parser rejects
    # symbolic scalars before __torch_function__ is consulted)
    def __add__(self, o):
        return _post(h_add(self, o))

    __radd__ = __add__

    def __sub__(self, o):
        return _post(h_sub(self, o))

    def __rsub__(self, o):
        return _post(h_sub(o, self))

    def __mul__(self, o):
        return _post(h_mul(self, o))

    __rmul__ = __mul__

    def __truediv__(self, o):
        return _post(h_div(self, o))

    def __rtruediv__(self, o):
        return _post(h_div(o, self))

    def __pow__(self, o):
        return _post(h_pow(self, o))

    def __rpow__(self, o):
        return _post(h_rpow(self, o))

    def __neg__(self):
        return _post(h_neg(self))

    def __abs__(self):
        return _post(h_abs(self))

    def __lt__(self, o):
        return HANDLERS["lt"](self, o)

    def __le__(self, o):
        return HANDLERS["le"](self, o)

    def __gt__(self, o):
        return HANDLERS["gt"](self, o)

    def __ge__(self, o):
        return HANDLERS["ge"](self, o)

    def __eq__(self, o):
        return HANDLERS["eq"](self, o)

    def __ne__(self, o):
        return HANDLERS["ne"](self, o)

    def __iadd__(self, o):
        return h_add_(self, o)

    def __isub__(self, o):
        return h_sub_(self, o)

    def __imul__(self, o):
        return h_mul_(self, o)

    def __itruediv__(self, o):
        return h_div_(self, o)

    def __format__(self, spec):
        return repr(self)

    def __hash__(self):
        return id(self)

    def __deepcopy__(self, memo):
        r = SymTensor(self._p.copy(), self.dtype)
        r._rg, r._leaf, r._is_param = self._rg, self._leaf, self._is_param
        return r

    def __reduce_ex__(self, proto):
        raise EngineUnsupported("pickling a SymTensor")


def _short(p):
    flat = p.reshape(-1)
    s = ", ".join(tm.show(x, 3) if isinstance(x, T) else repr(x) for x in flat[:3])
    return "[" + s + (", …]" if flat.size > 3 else "]")


PASSTHROUGH = {
    "size", "dim", "numel", "nelement", "ndimension", "is_floating_point", "is_complex",
    "__get__:shape", "__get__:dtype", "__get__:device", "__get__:ndim", "__get__:layout",
    "__get__:is_cuda", "__get__:is_sparse", "__get__:is_quantized", "__get__:is_meta",
    "__get__:is_cpu", "__get__:names", "__get__:is_nested", "__get__:is_mkldnn",
    "__get__:is_xla", "__get__:is_ipu", "__get__:is_xpu", "__get__:is_mps", "__get__:is_maia",
    "__get__:is_vulkan", "__get__:is_sparse_csr", "__get__:itemsize", "__get__:nbytes",
    "__len__", "element_size", "is_contiguous", "is_signed", "get_device", "is_same_size",
    "__get__:output_nr", "__get__:_version", "is_inference", "is_conj", "is_neg", "stride",
    "storage_offset", "has_names", "is_pinned", "is_shared",
}


def _post(out):
    """Under a disabled-grad region every float result is cut from the autograd graph."""
    if isinstance(out, SymTensor) and cx.CUR is not None and cx.CUR.env.get("track_grad"):
        if not torch.is_grad_enabled() and out.dtype.is_floating_point and not getattr(out, "_nocut", False):
            from . import autograd as ag

            ag.cut_inplace(out)
    return out


# ---------------------------------------------------------------------------------------
# payload helpers
# ---------------------------------------------------------------------------------------


def _objarr(x) -> np.ndarray:
    if isinstance(x, np.ndarray) and x.dtype == object:
        return x
    if isinstance(x, (list, tuple)):
        items = [_objarr(i) for i in x]
        if not items:
            return np.empty((0,), dtype=object)
        out = np.empty((len(items),) + items[0].shape, dtype=object)
        for i, it in enumerate(items):
            if it.shape == ():
                out[i] = it[()]
            else:
                out[i] = it
        return out
    a = np.empty((), dtype=object)
    a[()] = el.lift(x)
    return a


def payload(x) -> np.ndarray:
    """Object-array view of any tensor-like argument."""
    if isinstance(x, SymTensor):
        return x._p
    if isinstance(x, torch.Tensor):
        with _NoTF():
            a = x.detach().cpu().numpy() if not x.dtype == torch.bfloat16 else x.detach().float().cpu().numpy()
        out = np.empty(a.shape, dtype=object)
        flat_in = a.reshape(-1)
        flat_out = out.reshape(-1)
        for i in range(flat_in.size):
            v = flat_in[i]
            if a.dtype == np.bool_:
                flat_out[i] = tm.TRUE if v else tm.FALSE
            elif a.dtype.kind in "iu":
                flat_out[i] = el.lift(int(v))
            else:
                flat_out[i] = el.lift(float(v))
        return out
    if isinstance(x, np.ndarray) and x.dtype == object:
        return x
    if isinstance(x, np.ndarray):
        return payload(torch.from_numpy(x))
    return _objarr(x)


def is_sym(x):
    return isinstance(x, (SymTensor, SymReal, SymBool, SymInt))


def _dtype_of(*xs, default=None):
    for x in xs:
        if isinstance(x, SymTensor) and x.dtype.is_floating_point:
            return x.dtype
    for x in xs:
        if isinstance(x, torch.Tensor) and x.dtype.is_floating_point:
            return x.dtype
    return default or torch.get_default_dtype()


def wrap(p, dtype=None) -> SymTensor:
    if not isinstance(p, np.ndarray) or p.dtype != object:
        q = np.empty((), dtype=object)
        q[()] = p
        p = q
    if dtype is None:
        flat = p.reshape(-1)
        if flat.size and el.is_bool(flat[0]):
            dtype = torch.bool
    return SymTensor(p, dtype)


def _map(f, *arrs):
    uf = np.frompyfunc(f, len(arrs), 1)
    r = uf(*arrs)
    if not isinstance(r, np.ndarray):
        q = np.empty((), dtype=object)
        q[()] = r
        r = q
    return r


def sym(name, shape=(), dtype=None) -> SymTensor:
    """Fresh symbolic tensor with variables name[i,j,...]."""
    shape = tuple(shape)
    p = np.empty(shape, dtype=object)
    if shape == ():
        p[()] = el.fresh_input(name)
    else:
        for idx in np.ndindex(*shape):
            p[idx] = el.fresh_input("%s[%s]" % (name, ",".join(map(str, idx))))
    if cx.CUR is not None:
        cx.CUR.inputs[name] = shape
    return SymTensor(p, dtype)


def terms_of(x):
    """Flat list of element terms (R-mode) of a tensor-like."""
    return list(payload(x).reshape(-1))


# ---------------------------------------------------------------------------------------
# elementwise arithmetic
# ---------------------------------------------------------------------------------------


def _bin(f, a, b, dtype=None, inplace=None):
    pa, pb = payload(a), payload(b)
    r = _map(f, pa, pb)
    if inplace is not None:
        return _write(inplace, r)
    return wrap(r, dtype or _dtype_of(a, b))


def _un(f, a, inplace=None, dtype=None):
    r = _map(f, payload(a))
    if inplace is not None:
        return _write(inplace, r)
    return wrap(r, dtype or _dtype_of(a))


def _write(target: SymTensor, new: np.ndarray):
    if not isinstance(target, SymTensor):
        raise EngineUnsupported("in-place write of symbolic values into a real tensor")
    if new.shape != target._p.shape:
        new = np.broadcast_to(new, target._p.shape)
    if not target._p.flags.writeable:
        raise EngineUnsupported("in-place write into an expanded (read-only) view")
    target._p[...] = new
    _after_inplace(target)
    return target


def _after_inplace(target):
    if target._rg and target._leaf and cx.CUR is not None and cx.CUR.env.get("track_grad"):
        from . import autograd as ag

        ag.releaf(target)


@handler("add", "__add__", "__radd__")
def h_add(a, b, alpha=1, out=None):
    if alpha != 1:
        b = h_mul(b, alpha)
    return _bin(el.add, a, b)


@handler("add_", "__iadd__")
def h_add_(a, b, alpha=1):
    if alpha != 1:
        b = h_mul(b, alpha)
    return _bin(el.add, a, b, inplace=a)


@handler("sub", "__sub__", "subtract")
def h_sub(a, b, alpha=1):
    if alpha != 1:
        b = h_mul(b, alpha)
    return _bin(el.sub, a, b)


@handler("rsub", "__rsub__")
def h_rsub(a, b):
    return _bin(el.sub, b, a)


@handler("sub_", "__isub__")
def h_sub_(a, b, alpha=1):
    if alpha != 1:
        b = h_mul(b, alpha)
    return _bin(el.sub, a, b, inplace=a)


@handler("mul", "__mul__", "__rmul__", "multiply")
def h_mul(a, b):
    return _bin(el.mul, a, b)


@handler("mul_", "__imul__")
def h_mul_(a, b):
    return _bin(el.mul, a, b, inplace=a)


@handler("div", "__truediv__", "true_divide", "divide")
def h_div(a, b, rounding_mode=None):
    if rounding_mode is not None:
        raise EngineUnsupported("div rounding_mode")
    return _bin(el.div, a, b)


@handler("__rtruediv__", "__rdiv__")
def h_rdiv(a, b):
    return _bin(el.div, b, a)


@handler("div_", "__itruediv__")
def h_div_(a, b):
    return _bin(el.div, a, b, inplace=a)


@handler("reciprocal")
def h_reciprocal(a):
    return _un(lambda x: el.div(el.lift(1), x), a)


@handler("neg", "__neg__", "negative")
def h_neg(a):
    return _un(el.neg, a)


@handler("positive", "__pos__")
def h_pos(a):
    return a


@handler("abs", "__abs__", "absolute")
def h_abs(a):
    return _un(el.abs_, a)


@handler("square")
def h_square(a):
    return _un(lambda x: el.mul(x, x), a)


@handler("sqrt")
def h_sqrt(a):
    return _un(el.sqrt, a)


@handler("rsqrt")
def h_rsqrt(a):
    return _un(lambda x: el.div(el.lift(1), el.sqrt(x)), a)


@handler("exp")
def h_exp(a):
    return _un(el.exp, a)


@handler("exp_")
def h_exp_(a):
    return _un(el.exp, a, inplace=a)


@handler("log")
def h_log(a):
    return _un(el.log, a)


@handler("log_")
def h_log_(a):
    return _un(el.log, a, inplace=a)


@handler("log1p")
def h_log1p(a):
    return _un(lambda x: el.log(el.add(x, el.lift(1))), a)


@handler("erf")
def h_erf(a):
    return _un(el.erf, a)


@handler("cos")
def h_cos(a):
    return _un(el.cos, a)


@handler("sin")
def h_sin(a):
    return _un(el.sin, a)


@handler("pow", "__pow__")
def h_pow(a, e):
    if isinstance(e, (torch.Tensor,)) and not isinstance(a, (torch.Tensor,)):
        return h_rpow(e, a)
    if isinstance(e, torch.Tensor):
        return _bin(el.pow_, a, e)
    return _un(lambda x: el.pow_(x, e), a)


@handler("__rpow__")
def h_rpow(e, base):
    # base ** e with tensor exponent
    return _un(lambda x: el.rpow(base, x), e)


@handler("float_power")
def h_float_power(a, e):
    return h_pow(a, e)


@handler("relu")
def h_relu(a, inplace=False):
    return _un(lambda x: el.max_(x, el.lift(0)), a)


@handler("maximum", "max_elementwise")
def h_maximum(a, b):
    return _bin(el.max_, a, b)


@handler("minimum")
def h_minimum(a, b):
    return _bin(el.min_, a, b)


@handler("clamp", "clip")
def h_clamp(a, min=None, max=None):
    # torch semantics: min(max(x, lo), hi); with lo > hi the result is hi
    if min is None and max is None:
        raise RuntimeError("torch.clamp: At least one of 'min' or 'max' must not be None")
    r = a
    if min is not None:
        r = _bin(el.max_, r, min, dtype=_dtype_of(a))
    if max is not None:
        r = _bin(el.min_, r, max, dtype=_dtype_of(a))
    if r is a:
        r = wrap(payload(a).copy(), a.dtype)
    return r


@handler("clamp_", "clip_")
def h_clamp_(a, min=None, max=None):
    r = h_clamp(a, min, max)
    return _write(a, r._p)


@handler("clamp_min")
def h_clamp_min(a, min):
    return h_clamp(a, min=min)


@handler("clamp_max")
def h_clamp_max(a, max):
    return h_clamp(a, max=max)


@handler("lerp")
def h_lerp(a, b, w):
    pa, pb, pw = payload(a), payload(b), payload(w)
    r = _map(lambda x, y, z: el.add(x, el.mul(z, el.sub(y, x))), pa, pb, pw)
    return wrap(r, _dtype_of(a, b))


@handler("where")
def h_where(*args):
    # torch.where(cond, a, b)  or  Tensor.where(self, cond, other)
    if len(args) != 3:
        raise EngineUnsupported("where with %d args" % len(args))
    c0 = args[0]
    is_cond_first = (isinstance(c0, torch.Tensor) and c0.dtype == torch.bool)
    if is_cond_first:
        c, a, b = args
    else:
        a, c, b = args
    r = _map(el.ite, payload(c), payload(a), payload(b))
    return wrap(r, _dtype_of(a, b))


# ---- comparisons -------------------------------------------------------------------------


def _cmp(f):
    def h(a, b):
        return wrap(_map(f, payload(a), payload(b)), torch.bool)

    return h


handler("lt", "__lt__", "less")(_cmp(el.lt))
handler("le", "__le__", "less_equal")(_cmp(el.le))
handler("gt", "__gt__", "greater")(_cmp(el.gt))
handler("ge", "__ge__", "greater_equal")(_cmp(el.ge))
handler("eq", "__eq__")(_cmp(el.eq))
handler("ne", "__ne__", "not_equal")(_cmp(el.ne))


@handler("logical_and", "__and__", "bitwise_and")
def h_and(a, b):
    return wrap(_map(el.and_, payload(a), payload(b)), torch.bool)


@handler("logical_or", "__or__", "bitwise_or")
def h_or(a, b):
    return wrap(_map(el.or_, payload(a), payload(b)), torch.bool)


@handler("logical_not", "__invert__", "bitwise_not")
def h_not(a):
    return wrap(_map(el.not_, payload(a)), torch.bool)


@handler("all", "_is_all_true")
def h_all(a, dim=None, keepdim=False):
    return _reduce(a, lambda xs: el.and_many(xs), dim, keepdim, dtype=torch.bool, as_bool=True)


@handler("any", "_is_any_true")
def h_any(a, dim=None, keepdim=False):
    return _reduce(a, lambda xs: el.or_many(xs), dim, keepdim, dtype=torch.bool, as_bool=True)


@handler("isnan")
def h_isnan(a):
    return wrap(_map(el.isnan, payload(a)), torch.bool)


@handler("isinf")
def h_isinf(a):
    return wrap(_map(el.isinf, payload(a)), torch.bool)


@handler("isfinite")
def h_isfinite(a):
    return wrap(_map(el.isfinite, payload(a)), torch.bool)


# ---- reductions ----------------------------------------------------------------------------


def _norm_dims(dim, nd):
    if dim is None:
        return tuple(range(nd))
    if isinstance(dim, (int, SymInt)):
        dim = (int(dim),)
    return tuple(sorted(set(d % nd if nd else 0 for d in dim)))


def _reduce(a, f, dim=None, keepdim=False, dtype=None, as_bool=False):
    p = payload(a)
    if as_bool:
        p = _map(el.truthy, p)
    nd = p.ndim
    dims = _norm_dims(dim, nd)
    if nd == 0:
        out = np.empty((), dtype=object)
        out[()] = f([p[()]])
        return wrap(out, dtype or _dtype_of(a))
    keep = [d for d in range(nd) if d not in dims]
    q = np.transpose(p, keep + list(dims))
    oshape = tuple(p.shape[d] for d in keep)
    q = q.reshape(oshape + (-1,))
    out = np.empty(oshape, dtype=object)
    for idx in np.ndindex(*oshape):
        out[idx] = f(list(q[idx]))
    if keepdim:
        for d in dims:
            out = np.expand_dims(out, d)
    return wrap(out, dtype or _dtype_of(a))


@handler("sum")
def h_sum(a, dim=None, keepdim=False, dtype=None):
    return _reduce(a, el.sum_, dim, keepdim)


@handler("mean")
def h_mean(a, dim=None, keepdim=False, dtype=None):
    return _reduce(a, lambda xs: el.div(el.sum_(xs), el.lift(len(xs))), dim, keepdim)


@handler("prod")
def h_prod(a, dim=None, keepdim=False, dtype=None):
    return _reduce(a, el.prod_, dim, keepdim)


@handler("amax")
def h_amax(a, dim=None, keepdim=False):
    if dim == ():
        dim = None
    return _reduce(a, el.max_many, dim, keepdim)


@handler("amin")
def h_amin(a, dim=None, keepdim=False):
    if dim == ():
        dim = None
    return _reduce(a, el.min_many, dim, keepdim)


class _Indices:
    """Placeholder for index outputs of max/min/topk/sort: using it is unsupported."""

    def __getattr__(self, k):
        raise EngineUnsupported("indices of a symbolic order statistic were used")


class ValuesIndices(tuple):
    @property
    def values(self):
        return self[0]

    @property
    def indices(self):
        return self[1]


@handler("max")
def h_max(a, dim=None, keepdim=False, other=None):
    if isinstance(dim, torch.Tensor) or other is not None:
        return h_maximum(a, dim if other is None else other)
    if dim is None:
        return _reduce(a, el.max_many, None, False)
    return ValuesIndices((_reduce(a, el.max_many, dim, keepdim), _Indices()))


@handler("min")
def h_min(a, dim=None, keepdim=False, other=None):
    if isinstance(dim, torch.Tensor) or other is not None:
        return h_minimum(a, dim if other is None else other)
    if dim is None:
        return _reduce(a, el.min_many, None, False)
    return ValuesIndices((_reduce(a, el.min_many, dim, keepdim), _Indices()))


@handler("logsumexp")
def h_logsumexp(a, dim, keepdim=False):
    return _reduce(a, lambda xs: el.log(el.sum_([el.exp(x) for x in xs])), dim, keepdim)


@handler("var")
def h_var(a, dim=None, unbiased=True, keepdim=False, correction=None):
    corr = (1 if unbiased else 0) if correction is None else correction

    def f(xs):
        n = len(xs)
        m = el.div(el.sum_(xs), el.lift(n))
        return el.div(el.sum_([el.mul(el.sub(x, m), el.sub(x, m)) for x in xs]), el.lift(n - corr))

    return _reduce(a, f, dim, keepdim)


@handler("std")
def h_std(a, dim=None, unbiased=True, keepdim=False, correction=None):
    return h_sqrt(h_var(a, dim, unbiased, keepdim, correction))


def _scan(a, dim, f):
    p = payload(a)
    dim = dim % p.ndim
    q = np.moveaxis(p, dim, -1)
    out = np.empty(q.shape, dtype=object)
    for idx in np.ndindex(*q.shape[:-1]):
        acc = None
        for k in range(q.shape[-1]):
            acc = q[idx + (k,)] if acc is None else f(acc, q[idx + (k,)])
            out[idx + (k,)] = acc
    return wrap(np.moveaxis(out, -1, dim).copy(), _dtype_of(a))


@handler("cumsum")
def h_cumsum(a, dim, dtype=None):
    return _scan(a, dim, el.add)


@handler("cumprod")
def h_cumprod(a, dim, dtype=None):
    return _scan(a, dim, el.mul)


@handler("cummax")
def h_cummax(a, dim):
    return ValuesIndices((_scan(a, dim, el.max_), _Indices()))


@handler("cummin")
def h_cummin(a, dim):
    return ValuesIndices((_scan(a, dim, el.min_), _Indices()))


@handler("diff")
def h_diff(a, n=1, dim=-1, prepend=None, append=None):
    if n != 1:
        raise EngineUnsupported("diff with n != 1")
    p = payload(a)
    dim = dim % p.ndim
    parts = ([payload(prepend)] if prepend is not None else []) + [p] + ([payload(append)] if append is not None else [])
    if len(parts) > 1:
        p = np.concatenate(parts, axis=dim)
    q = np.moveaxis(p, dim, -1)
    r = _map(el.sub, q[..., 1:], q[..., :-1])
    return wrap(np.moveaxis(r, -1, dim).copy(), _dtype_of(a))


def _sorted_terms(xs, descending=False):
    """Sorting network (odd-even transposition) of ite terms; returns the sorted list."""
    xs = list(xs)
    n = len(xs)
    for rnd in range(n):
        for i in range(rnd % 2, n - 1, 2):
            lo, hi = el.min_(xs[i], xs[i + 1]), el.max_(xs[i], xs[i + 1])
            xs[i], xs[i + 1] = (hi, lo) if descending else (lo, hi)
    return xs


def _along(a, dim, f, out_len):
    p = payload(a)
    if p.ndim == 0:
        p = p.reshape(1)
        dim = 0
    dim = dim % p.ndim
    q = np.moveaxis(p, dim, -1)
    out = np.empty(q.shape[:-1] + (out_len,), dtype=object)
    for idx in np.ndindex(*q.shape[:-1]):
        r = f(list(q[idx]))
        for k in range(out_len):
            out[idx + (k,)] = r[k]
    return np.moveaxis(out, -1, dim).copy()


@handler("topk")
def h_topk(a, k, dim=-1, largest=True, sorted=True):
    k = int(k)
    n = payload(a).shape[dim] if payload(a).ndim else 1
    if k > n or k < 0:
        raise RuntimeError("selected index k out of range")
    r = _along(a, dim, lambda xs: _sorted_terms(xs, descending=largest)[:k], k)
    return ValuesIndices((wrap(r, _dtype_of(a)), _Indices()))


@handler("sort")
def h_sort(a, dim=-1, descending=False, stable=False):
    n = payload(a).shape[dim]
    r = _along(a, dim, lambda xs: _sorted_terms(xs, descending=descending), n)
    return ValuesIndices((wrap(r, _dtype_of(a)), _Indices()))


@handler("kthvalue")
def h_kthvalue(a, k, dim=-1, keepdim=False):
    k = int(k)
    p = payload(a)
    n = p.shape[dim] if p.ndim else 1
    if k < 1 or k > n:
        raise RuntimeError("kthvalue(): selected number k out of range for dimension")
    r = _along(a, dim, lambda xs: [_sorted_terms(xs)[k - 1]], 1)
    if not keepdim and p.ndim:
        r = np.squeeze(r, axis=dim % p.ndim)
    elif not p.ndim:
        r = r.reshape(())
    return ValuesIndices((wrap(r, _dtype_of(a)), _Indices()))


@handler("quantile")
def h_quantile(a, q, dim=None, keepdim=False, interpolation="linear"):
    if interpolation != "linear":
        raise EngineUnsupported("quantile interpolation " + interpolation)
    p = payload(a)
    if dim is None:
        p = p.reshape(-1)
        dim_ = 0
    else:
        dim_ = dim
    n = p.shape[dim_]
    qt = cx._t(q)

    def f(xs):
        s = _sorted_terms(xs)
        if qt.op == "const":
            pos = qt.val * (n - 1)
            lo = pos.numerator // pos.denominator
            hi = builtins.min(lo + 1, n - 1)
            w = pos - lo
            return [el.add(s[lo], el.mul(el.lift(w), el.sub(s[hi], s[lo])))]
        # symbolic level: piecewise over the n-1 intervals
        pos = tm.mul(qt, tm.const(n - 1))
        res = s[n - 1]
        for lo in range(n - 2, -1, -1):
            w = tm.sub(pos, tm.const(lo))
            val = el.add(s[lo], el.mul(w, el.sub(s[lo + 1], s[lo])))
            res = el.ite(tm.lt(pos, tm.const(lo + 1)), val, res)
        return [res]

    r = _along(wrap(p), dim_, f, 1)
    r = r if keepdim and dim is not None else np.squeeze(r, axis=dim_ % builtins.max(p.ndim, 1))
    return wrap(r, _dtype_of(a))


@handler("median")
def h_median(a, dim=None, keepdim=False):
    if dim is None:
        xs = list(payload(a).reshape(-1))
        s = _sorted_terms(xs)
        return wrap(s[(len(s) - 1) // 2], _dtype_of(a))
    raise EngineUnsupported("median with dim")


# ---- shape ops ------------------------------------------------------------------------------


def _conv_index(idx, shape):
    """torch-style index -> numpy index; returns (index, mask_or_None)."""
    if not isinstance(idx, tuple):
        idx = (idx,)
    out = []
    seen_ellipsis = False
    for it in idx:
        if it is Ellipsis:
            if seen_ellipsis:
                continue  # pfhedge writes spot[..., ...]
            seen_ellipsis = True
            out.append(it)
        elif isinstance(it, SymInt):
            out.append(int(it))
        elif isinstance(it, SymTensor):
            if it.dtype == torch.bool:
                raise EngineUnsupported("getitem with a symbolic mask")
            out.append(np.array([int(cx.SymInt(x)) for x in it._p.reshape(-1)]).reshape(it._p.shape))
        elif isinstance(it, torch.Tensor):
            with _NoTF():
                out.append(it.numpy())
        elif isinstance(it, (list,)):
            out.append([int(i) if not isinstance(i, (list, tuple)) else i for i in it])
        elif isinstance(it, slice):
            out.append(slice(*(None if v is None else int(v) for v in (it.start, it.stop, it.step))))
        else:
            out.append(it)
    return tuple(out)


@handler("__getitem__")
def h_getitem(a, idx):
    p = payload(a)
    r = p[_conv_index(idx, p.shape)]
    if not isinstance(r, np.ndarray):
        q = np.empty((), dtype=object)
        q[()] = r
        r = q
    out = SymTensor(r, a.dtype if isinstance(a, torch.Tensor) else None)
    return out


@handler("__setitem__")
def h_setitem(a, idx, value):
    if not isinstance(a, SymTensor):
        raise EngineUnsupported("writing a symbolic value into a real tensor (allocate it under the facade)")
    if not a._p.flags.writeable:
        raise EngineUnsupported("setitem into a read-only view")
    if isinstance(idx, SymTensor) and idx.dtype == torch.bool:
        v = np.broadcast_to(payload(value), a._p.shape)
        a._p[...] = _map(el.ite, idx._p, v, a._p)
    else:
        a._p[_conv_index(idx, a._p.shape)] = payload(value) if not is_scalar(value) else el.lift(value)
    _after_inplace(a)
    return None


def is_scalar(v):
    return isinstance(v, (int, float, bool, Fraction, SymReal, SymBool))


@handler("unsqueeze")
def h_unsqueeze(a, dim):
    p = payload(a)
    dim = dim if dim >= 0 else dim + p.ndim + 1
    return SymTensor(np.expand_dims(p, dim), a.dtype)


@handler("squeeze")
def h_squeeze(a, dim=None):
    p = payload(a)
    if dim is None:
        return SymTensor(np.squeeze(p), a.dtype)
    dims = (dim,) if isinstance(dim, int) else tuple(dim)
    dims = tuple(d % p.ndim for d in dims if p.ndim and p.shape[d % p.ndim] == 1)
    return SymTensor(np.squeeze(p, axis=dims) if dims else p[...], a.dtype)


@handler("transpose", "swapaxes", "swapdims")
def h_transpose(a, d0, d1):
    return SymTensor(np.swapaxes(payload(a), d0, d1), a.dtype)


@handler("t")
def h_t(a):
    p = payload(a)
    return SymTensor(p.T if p.ndim == 2 else p[...], a.dtype)


@handler("__get__:T", "__get__:mT")
def h_T(a):
    return SymTensor(np.swapaxes(payload(a), -1, -2), a.dtype)


@handler("permute")
def h_permute(a, *dims):
    if len(dims) == 1 and isinstance(dims[0], (tuple, list)):
        dims = tuple(dims[0])
    return SymTensor(np.transpose(payload(a), dims), a.dtype)


@handler("movedim", "moveaxis")
def h_movedim(a, s, d):
    return SymTensor(np.moveaxis(payload(a), s, d), a.dtype)


def _sizes(args):
    if len(args) == 1 and isinstance(args[0], (tuple, list, torch.Size)):
        args = tuple(args[0])
    return tuple(int(x) for x in args)


@handler("expand")
def h_expand(a, *sizes):
    sizes = _sizes(sizes)
    p = payload(a)
    shape = list(sizes)
    off = len(shape) - p.ndim
    for i in range(len(shape)):
        if shape[i] == -1:
            shape[i] = p.shape[i - off]
    return SymTensor(np.broadcast_to(p, tuple(shape)), a.dtype)


@handler("expand_as")
def h_expand_as(a, other):
    return h_expand(a, *other.shape)


@handler("broadcast_to")
def h_broadcast_to(a, size):
    return h_expand(a, *size)


@handler("broadcast_tensors")
def h_broadcast_tensors(*ts):
    if len(ts) == 1 and isinstance(ts[0], (list, tuple)):
        ts = tuple(ts[0])
    ps = [payload(t) for t in ts]
    bs = np.broadcast_arrays(*ps)
    dt = _dtype_of(*ts)
    return tuple(SymTensor(np.array(b, dtype=object, copy=False) if False else b, (t.dtype if isinstance(t, torch.Tensor) else dt)) for b, t in zip(bs, ts))


@handler("flatten")
def h_flatten(a, start_dim=0, end_dim=-1):
    p = payload(a)
    if p.ndim == 0:
        return SymTensor(p.reshape(1), a.dtype)
    s, e = start_dim % p.ndim, end_dim % p.ndim
    shape = p.shape[:s] + (-1,) + p.shape[e + 1:]
    return SymTensor(p.reshape(shape), a.dtype)


@handler("view", "reshape")
def h_view(a, *sizes):
    if len(sizes) == 1 and isinstance(sizes[0], torch.dtype):
        raise EngineUnsupported("view(dtype)")
    return SymTensor(payload(a).reshape(_sizes(sizes)), a.dtype)


@handler("view_as", "reshape_as")
def h_view_as(a, other):
    return SymTensor(payload(a).reshape(tuple(other.shape)), a.dtype)


@handler("contiguous")
def h_contiguous(a, memory_format=None):
    return a


@handler("clone")
def h_clone(a, memory_format=None):
    return SymTensor(payload(a).copy(), a.dtype)


@handler("cat", "concat", "concatenate")
def h_cat(ts, dim=0, out=None):
    ts = list(ts)
    ps = [payload(t) for t in ts]
    ps = [p for p in ps if not (p.ndim == 1 and p.shape[0] == 0)] or ps[:1]
    dt = None
    for t in ts:
        if isinstance(t, torch.Tensor):
            dt = t.dtype if dt is None or (t.dtype.is_floating_point and not dt.is_floating_point) else dt
    return SymTensor(np.concatenate(ps, axis=dim), dt)


@handler("stack")
def h_stack(ts, dim=0, out=None):
    ts = list(ts)
    return SymTensor(np.stack([payload(t) for t in ts], axis=dim), _dtype_of(*ts))


@handler("flip")
def h_flip(a, dims):
    if isinstance(dims, int):
        dims = (dims,)
    return SymTensor(np.flip(payload(a), axis=tuple(dims)).copy(), a.dtype)


@handler("unbind")
def h_unbind(a, dim=0):
    p = payload(a)
    return tuple(SymTensor(np.take(p, i, axis=dim), a.dtype) for i in range(p.shape[dim]))


@handler("__iter__")
def h_iter(a):
    return iter(h_unbind(a, 0))


@handler("split")
def h_split(a, split_size, dim=0):
    p = payload(a)
    n = p.shape[dim]
    if isinstance(split_size, int):
        bounds = list(range(0, n, split_size)) + [n]
    else:
        bounds = [0]
        for s in split_size:
            bounds.append(bounds[-1] + s)
    out = []
    for i in range(len(bounds) - 1):
        sl = [slice(None)] * p.ndim
        sl[dim] = slice(bounds[i], bounds[i + 1])
        out.append(SymTensor(p[tuple(sl)], a.dtype))
    return tuple(out)


@handler("chunk")
def h_chunk(a, chunks, dim=0):
    n = payload(a).shape[dim]
    return h_split(a, -(-n // chunks), dim)


@handler("repeat")
def h_repeat(a, *sizes):
    return SymTensor(np.tile(payload(a), _sizes(sizes)), a.dtype)


def _int_index(index):
    """an index tensor as a numpy integer array (constant symbolic tensors included)"""
    if isinstance(index, SymTensor):
        flat = [el.value_term(x) for x in index._p.reshape(-1)]
        if any(t.op != "const" for t in flat):
            raise EngineUnsupported("symbolic index tensor")
        return np.array([int(t.val) for t in flat], dtype=np.int64).reshape(index._p.shape)
    with _NoTF():
        return index.numpy()


@handler("index_select")
def h_index_select(a, dim, index):
    idx = _int_index(index)
    return SymTensor(np.take(payload(a), idx, axis=dim), a.dtype)


@handler("gather")
def h_gather(a, dim, index):
    idx = _int_index(index)
    return SymTensor(np.take_along_axis(payload(a), idx, axis=dim), a.dtype)


@handler("resize_")
def h_resize_(a, *sizes):
    sizes = _sizes(sizes)
    n = int(np.prod(sizes)) if sizes else 1
    p = a._p.reshape(-1)
    if p.size < n:
        raise EngineUnsupported("resize_ that grows")
    r = SymTensor(p[:n].reshape(sizes), a.dtype)
    return r


# ---- dtype / device / conversions ---------------------------------------------------------------


def _cast(p, src_bool, dtype):
    if dtype == torch.bool:
        return _map(el.truthy, p), torch.bool
    if src_bool:
        return _map(el.bool_to_real, p), dtype
    return p, dtype


@handler("to")
def h_to(a, *args, **kw):
    dtype = kw.get("dtype")
    other = kw.get("other")
    for x in args:
        if isinstance(x, torch.dtype):
            dtype = x
        elif isinstance(x, torch.Tensor):
            other = x
    if other is not None:
        dtype = other.dtype
    src_bool = isinstance(a, torch.Tensor) and a.dtype == torch.bool
    p = payload(a)
    if dtype is None:
        if isinstance(a, SymTensor):
            return a
        dtype = a.dtype
    q, dt = _cast(p, src_bool, dtype)
    if isinstance(a, SymTensor) and q is p and dt == a.dtype and not kw.get("copy", False):
        return a
    r = SymTensor(q if q is not p else p.copy(), dt)
    if isinstance(a, SymTensor):
        r._rg, r._leaf = a._rg, False if a._rg else True
    return r


@handler("type")
def h_type(a, dtype=None, **kw):
    if dtype is None:
        return "torch.FloatTensor"
    return h_to(a, dtype)


@handler("type_as")
def h_type_as(a, other):
    return h_to(a, other.dtype)


@handler("float")
def h_float(a):
    return h_to(a, torch.float32)


@handler("double")
def h_double(a):
    return h_to(a, torch.float64)


@handler("half")
def h_half(a):
    return h_to(a, torch.float16)


@handler("bool")
def h_boolcast(a):
    return h_to(a, torch.bool)


@handler("long", "int")
def h_long(a):
    raise EngineUnsupported("cast of a symbolic tensor to an integer dtype")


@handler("cpu", "cuda")
def h_cpu(a, *args, **kw):
    return a


@handler("item")
def h_item(a):
    p = payload(a)
    if p.size != 1:
        raise RuntimeError("a Tensor with %d elements cannot be converted to Scalar" % p.size)
    x = p.reshape(-1)[0]
    return el.to_scalar(x)


@handler("tolist")
def h_tolist(a):
    return _map(el.to_scalar, payload(a)).tolist()


@handler("__bool__")
def h_bool(a):
    p = payload(a)
    if p.size != 1:
        raise RuntimeError("Boolean value of Tensor with more than one value is ambiguous")
    x = el.truthy(p.reshape(-1)[0])
    if cx.CUR is None:
        raise EngineUnsupported("__bool__ outside a run")
    return cx.CUR.decide(x)


@handler("__float__")
def h_float_(a):
    x = payload(a).reshape(-1)[0]
    s = el.to_scalar(x)
    if isinstance(s, SymReal):
        if s.t.op == "const":
            return float(s.t.val)
        if cx.CUR is not None and cx.CUR.env.get("float_hook"):
            return cx.CUR.env["float_hook"](s)
        raise EngineUnsupported("float() of a symbolic tensor element")
    return float(s)


@handler("__int__", "__index__")
def h_int_(a):
    x = payload(a).reshape(-1)[0]
    return int(SymInt(el.value_term(x)))


@handler("__repr__", "__str__")
def h_repr(a, **kw):
    return SymTensor.__repr__(a)


@handler("__format__")
def h_format(a, spec):
    return SymTensor.__repr__(a)


# ---- factories ------------------------------------------------------------------------------------


def _full(shape, v, dtype):
    p = np.empty(tuple(shape), dtype=object)
    p[...] = el.lift(v)
    return SymTensor(p, dtype)


@handler("zeros_like")
def h_zeros_like(a, dtype=None, **kw):
    return _full(a.shape, 0, dtype or a.dtype)


@handler("ones_like")
def h_ones_like(a, dtype=None, **kw):
    return _full(a.shape, 1, dtype or a.dtype)


@handler("full_like")
def h_full_like(a, fill_value, dtype=None, **kw):
    return _full(a.shape, fill_value, dtype or a.dtype)


def fresh_tensor(shape, base, dtype=None, constrain=None):
    p = np.empty(tuple(int(s) for s in shape), dtype=object)
    c = cx.CUR
    c.rng_counter += 1
    k = c.rng_counter
    for idx in np.ndindex(*p.shape):
        name = "%s#%d[%s]" % (base, k, ",".join(map(str, idx)))
        v = el.fresh_input(name)
        p[idx] = v
        if constrain is not None:
            constrain(v)
    c.inputs["%s#%d" % (base, k)] = tuple(p.shape)
    t = SymTensor(p, dtype)
    c.env.setdefault("draws", {}).setdefault(base, []).append(t)
    return t


@handler("empty_like")
def h_empty_like(a, dtype=None, **kw):
    return fresh_tensor(a.shape, "uninit", dtype or a.dtype)


@handler("randn_like")
def h_randn_like(a, dtype=None, **kw):
    return fresh_tensor(a.shape, "z", dtype or a.dtype)


@handler("rand_like")
def h_rand_like(a, dtype=None, **kw):
    def con(v):
        t = el.value_term(v)
        cx.CUR.assumptions.append(tm.ge(t, tm.ZERO))
        cx.CUR.assumptions.append(tm.lt(t, tm.ONE))

    return fresh_tensor(a.shape, "u", dtype or a.dtype, con)


@handler("new_zeros")
def h_new_zeros(a, *size, dtype=None, **kw):
    return _full(_sizes(size), 0, dtype or a.dtype)


@handler("new_ones")
def h_new_ones(a, *size, dtype=None, **kw):
    return _full(_sizes(size), 1, dtype or a.dtype)


@handler("new_full")
def h_new_full(a, size, fill_value, dtype=None, **kw):
    return _full(_sizes((size,)), fill_value, dtype or a.dtype)


@handler("new_empty")
def h_new_empty(a, *size, dtype=None, **kw):
    return fresh_tensor(_sizes(size), "uninit", dtype or a.dtype)


@handler("new_tensor")
def h_new_tensor(a, data, dtype=None, **kw):
    return SymTensor(payload(data).copy(), dtype or a.dtype)


@handler("fill_")
def h_fill_(a, v):
    a._p[...] = el.lift(v) if is_scalar(v) else payload(v).reshape(-1)[0]
    _after_inplace(a)
    return a


@handler("zero_")
def h_zero_(a):
    return h_fill_(a, 0)


@handler("copy_")
def h_copy_(a, src, non_blocking=False):
    if not isinstance(a, SymTensor):
        raise EngineUnsupported("copy_ of a symbolic value into a real tensor")
    return _write(a, payload(src))


# ---- nn functional -----------------------------------------------------------------------------------


@handler("linear")
def h_linear(x, w, b=None):
    px, pw = payload(x), payload(w)
    out_f, in_f = pw.shape
    lead = px.shape[:-1]
    out = np.empty(lead + (out_f,), dtype=object)
    for idx in np.ndindex(*lead):
        row = px[idx]
        for o in range(out_f):
            acc = el.sum_([el.mul(row[i], pw[o, i]) for i in range(in_f)])
            if b is not None:
                acc = el.add(acc, payload(b)[o])
            out[idx + (o,)] = acc
    return SymTensor(out, _dtype_of(x, w))


@handler("conv1d")
def h_conv1d(input, weight, bias=None, stride=1, padding=0, dilation=1, groups=1):
    if stride not in (1, (1,)) or dilation not in (1, (1,)) or groups != 1:
        raise EngineUnsupported("conv1d with stride/dilation/groups")
    pi, pw = payload(input), payload(weight)
    pad = int(padding[0] if isinstance(padding, (tuple, list)) else padding)
    B, Cin, L = pi.shape
    Cout, Cin2, K = pw.shape
    assert Cin == Cin2
    zero = el.lift(0)
    Lp = L + 2 * pad
    out = np.empty((B, Cout, Lp - K + 1), dtype=object)
    for b in range(B):
        for o in range(Cout):
            for t in range(Lp - K + 1):
                acc = []
                for ci in range(Cin):
                    for k in range(K):
                        j = t + k - pad
                        if 0 <= j < L:
                            acc.append(el.mul(pi[b, ci, j], pw[o, ci, k]))
                r = el.sum_(acc) if acc else zero
                if bias is not None:
                    r = el.add(r, payload(bias)[o])
                out[b, o, t] = r
    return SymTensor(out, _dtype_of(input, weight))


@handler("matmul", "__matmul__", "mm")
def h_matmul(a, b):
    pa, pb = payload(a), payload(b)
    if pa.ndim != 2 or pb.ndim != 2:
        raise EngineUnsupported("matmul beyond 2-D")
    out = np.empty((pa.shape[0], pb.shape[1]), dtype=object)
    for i in range(pa.shape[0]):
        for j in range(pb.shape[1]):
            out[i, j] = el.sum_([el.mul(pa[i, k], pb[k, j]) for k in range(pa.shape[1])])
    return SymTensor(out, _dtype_of(a, b))


@handler("mse_loss")
def h_mse(input, target, size_average=None, reduce=None, reduction="mean", weight=None):
    d = h_sub(input, target)
    sq = h_square(d)
    if reduction == "mean":
        return h_mean(sq)
    if reduction == "sum":
        return h_sum(sq)
    return sq


@handler("l1_loss")
def h_l1(input, target, size_average=None, reduce=None, reduction="mean", weight=None):
    d = h_abs(h_sub(input, target))
    if reduction == "mean":
        return h_mean(d)
    if reduction == "sum":
        return h_sum(d)
    return d


@handler("pad")
def h_pad(a, pad, mode="constant", value=None):
    if mode != "constant":
        raise EngineUnsupported("pad mode " + mode)
    p = payload(a)
    widths = [(0, 0)] * p.ndim
    for k in range(len(pad) // 2):
        widths[p.ndim - 1 - k] = (int(pad[2 * k]), int(pad[2 * k + 1]))
    fill = el.lift(0 if value is None else value)
    shape = tuple(s_ + lo + hi for s_, (lo, hi) in zip(p.shape, widths))
    out = np.empty(shape, dtype=object)
    out[...] = fill
    sl = tuple(slice(lo, lo + s_) for s_, (lo, hi) in zip(p.shape, widths))
    out[sl] = p
    return SymTensor(out, a.dtype)


@handler("softplus")
def h_softplus(a, beta=1.0, threshold=20.0):
    raise EngineUnsupported("softplus")


@handler("leaky_relu")
def h_leaky_relu(a, negative_slope=0.01, inplace=False):
    return _un(lambda x: el.ite(el.ge(x, el.lift(0)), x, el.mul(el.lift(negative_slope), x)), a)


@handler("dropout")
def h_dropout(a, p=0.5, training=True, inplace=False):
    if training and p > 0:
        raise EngineUnsupported("dropout in training mode")
    return a


def install_methods():
    """Python-level methods on SymTensor for every handler that is a Tensor method, so that symbolic
    scalar arguments never meet torch's C argument parser."""
    skip = {"__getitem__", "__setitem__", "__bool__", "__float__", "__int__", "__index__", "__repr__", "__str__",
            "__format__", "__iter__", "__len__"}
    for name, h in list(HANDLERS.items()):
        if ":" in name or name in skip:
            continue
        if name.startswith("__") and name in SymTensor.__dict__:
            continue
        if not hasattr(torch.Tensor, name):
            continue
        if name in ("grad", "where"):
            pass

        def make(h, name):
            def m(self, *a, **k):
                USED.add(name)
                return _post(h(self, *a, **k))

            m.__name__ = name
            return m

        if name == "grad":
            continue
        setattr(SymTensor, name, make(h, name))


# ---- autograd entry points are registered by autograd.py -------------------------------------------------

from . import autograd as _ag  # noqa: E402,F401  (registers handlers)
from . import tensor_ext as _ext  # noqa: E402,F401  (registers further handlers)
install_methods()
