#!/bin/bash
# run_all.sh [quick|thorough]: every claimed check in sequence; prints exit code and wall time per property
TIER=${1:-quick}
cd "$(dirname "$0")/.."
for p in $(python3 -c "import json; print(' '.join(c['property_id'] for c in json.load(open('MANIFEST.json'))['checks']))"); do
  s=$(date +%s)
  out=$(bin/vcheck $p --tier $TIER 2>&1); rc=$?
  e=$(date +%s)
  echo "$p rc=$rc $((e-s))s | $(echo "$out" | grep -E "^C[0-9]+ tier" | cut -c1-140)"
  echo "$out" | grep -E "^(VIOLATION|HARNESS-ERROR|UNDECIDED)" | cut -c1-200 | head -5
done
