"""C08 — Greeks are the derivatives of the price."""
import numpy as np
import torch

from harness.lib import Case
from harness import common as cm
from symtorch import api, ctx as cx, facades, terms as tm
from symtorch import tensor as st
from symtorch.api import elem

META = {
    "stubs": ["torch.autograd.grad / requires_grad_ are served by symbolic differentiation of the executed price term (the real autogreek code runs)"],
    "axioms": ["exp: positivity, add-law, congruence; sqrt: q>=0, q^2=t; Phi: range, symmetry; Phi' = INV_SQRT_2PI*exp(-x^2/2) (differentiation rule); "
               "named constants SQRT2, PI, INV_SQRT_2PI with their algebraic relations"],
    "assumptions": ["exact reals on the open domain t>0, v>0, K>0 (American binary / lookback: additionally off the branch boundaries)",
                    "replay oracle: central finite differences in float64"],
}

H = 1e-5


def dfun(c, f, x, scale=None):
    """elementwise derivative of the elementwise map f at x: symbolic differentiation (sym) / central differences (concrete)"""
    if isinstance(x, st.SymTensor):
        out = f(x)
        po, px = out._p.reshape(-1), x._p.reshape(-1)
        g = np.empty(px.shape, dtype=object)
        for i in range(px.size):
            assert px[i].op == "var", "differentiate w.r.t. input symbols"
            g[i] = tm.D(po[i], px[i])
        return st.SymTensor(g.reshape(x._p.shape), x.dtype)
    with torch.no_grad():
        return (f(x + H) - f(x - H)) / (2 * H)


def bs_case(kind, call, greek, shape=(1,)):
    def fn(c):
        from pfhedge.nn import BSAmericanBinaryOption, BSEuropeanBinaryOption, BSEuropeanOption, BSLookbackOption

        K = api.real(c, "K", pos=True)
        s = api.tensor(c, "s", shape)
        t = api.tensor(c, "t", shape, pos=True)
        v = api.tensor(c, "v", shape, pos=True)
        with facades.real_torch():
            if kind == "european":
                m = BSEuropeanOption(call=call, strike=K)
            elif kind == "eubinary":
                m = BSEuropeanBinaryOption(call=call, strike=K)
            elif kind == "ambinary":
                m = BSAmericanBinaryOption(strike=K)
            else:
                m = BSLookbackOption(strike=K)
        extra = ()
        if kind in ("ambinary", "lookback"):
            mx = api.tensor(c, "m", shape)
            for a, b in zip(api.elems(mx), api.elems(s)):
                c.assume(api.ge(a, b))  # (the tie max == strike is included: the derivative is w.r.t. the spot at a fixed running maximum)
            price = lambda s_, t_, v_: m.price(s_, mx, t_, v_)  # noqa: E731
            call_greek = lambda name: getattr(m, name)(s, mx, t, v)  # noqa: E731
        else:
            price = lambda s_, t_, v_: m.price(s_, t_, v_)  # noqa: E731
            call_greek = lambda name: getattr(m, name)(s, t, v)  # noqa: E731

        def spot_of(s_):
            return s_.exp() * K

        d_ds = lambda s_: dfun(c, lambda y: price(y, t, v), s_)  # noqa: E731
        delta_true = lambda s_: d_ds(s_) / spot_of(s_)  # noqa: E731
        if greek == "delta":
            want = delta_true(s)
        elif greek == "gamma":
            if c.mode == "sym":
                want = dfun(c, delta_true, s) / spot_of(s)
            else:
                # second central difference in log-moneyness:  P_SS = (P_ss - P_s) / S^2
                with torch.no_grad():
                    h = 1e-4
                    p0, pp, pm = price(s, t, v), price(s + h, t, v), price(s - h, t, v)
                    want = ((pp - 2 * p0 + pm) / h ** 2 - (pp - pm) / (2 * h)) / spot_of(s) ** 2
        elif greek == "vega":
            want = dfun(c, lambda y: price(s, t, y), v)
        else:
            want = -dfun(c, lambda y: price(s, y, v), t)
        got = call_greek(greek)
        c.check("%s shape" % greek, tuple(got.shape) == tuple(shape))
        tol = 2e-4 if greek == "gamma" else 1e-5
        for i in np.ndindex(*shape):
            c.check("%s %s %s%s == d price" % (kind, "call" if call else "put", greek, list(i)), api.eq(elem(got, *i), elem(want, *i), tol=tol))
        if greek == "delta" and kind == "european":
            c.control("control:delta == d price / d log-moneyness", api.eq(elem(got, *([0] * len(shape))), elem(d_ds(s), *([0] * len(shape))), tol=tol))

    return fn


def functional_case(fname):
    """functional Greeks against the functional price, symbolic strike"""
    from pfhedge.nn import functional as F

    def fn(c):
        K = api.real(c, "K", pos=True)
        s = api.tensor(c, "s", (1,))
        t = api.tensor(c, "t", (1,), pos=True)
        v = api.tensor(c, "v", (1,), pos=True)
        spot = lambda s_: s_.exp() * K  # noqa: E731
        if fname == "european":
            for call in (True, False):
                price = lambda s_, t_, v_: F.bs_european_price(s_, t_, v_, strike=K, call=call)  # noqa: E731
                d = dfun(c, lambda y: price(y, t, v), s) / spot(s)
                c.check("bs_european_delta call=%s" % call, api.eq(elem(F.bs_european_delta(s, t, v, call=call), 0), elem(d, 0), tol=1e-5))
            price = lambda s_, t_, v_: F.bs_european_price(s_, t_, v_, strike=K)  # noqa: E731
            c.check("bs_european_vega", api.eq(elem(F.bs_european_vega(s, t, v, K), 0), elem(dfun(c, lambda y: price(s, t, y), v), 0), tol=1e-5))
            c.check("bs_european_theta", api.eq(elem(F.bs_european_theta(s, t, v, K), 0), elem(-dfun(c, lambda y: price(s, y, v), t), 0), tol=1e-5))
            g = F.bs_european_gamma(s, t, v, K)
            dd = dfun(c, lambda y: F.bs_european_delta(y, t, v), s) / spot(s)
            c.check("bs_european_gamma == d delta", api.eq(elem(g, 0), elem(dd, 0), tol=1e-5))
            th = F._bs_theta_gamma_relation(g, spot(s), v)
            c.check("theta-gamma relation", api.eq(elem(th, 0), elem(F.bs_european_theta(s, t, v, K), 0), tol=1e-5))
            vg = F._bs_vega_gamma_relation(g, spot(s), t, v)
            c.check("vega-gamma relation", api.eq(elem(vg, 0), elem(F.bs_european_vega(s, t, v, K), 0), tol=1e-5))
        elif fname == "eubinary":
            for call in (True, False):
                price = lambda s_, t_, v_: F.bs_european_binary_price(s_, t_, v_, call=call)  # noqa: E731
                d = dfun(c, lambda y: price(y, t, v), s) / spot(s)
                c.check("bs_european_binary_delta call=%s" % call, api.eq(elem(F.bs_european_binary_delta(s, t, v, call=call, strike=K), 0), elem(d, 0), tol=1e-5))
                dd = dfun(c, lambda y: F.bs_european_binary_delta(y, t, v, call=call, strike=K), s) / spot(s)
                c.check("bs_european_binary_gamma == d delta call=%s" % call, api.eq(elem(F.bs_european_binary_gamma(s, t, v, call=call, strike=K), 0), elem(dd, 0), tol=1e-5))
                c.check("bs_european_binary_vega call=%s" % call, api.eq(elem(F.bs_european_binary_vega(s, t, v, call=call, strike=K), 0),
                                                                      elem(dfun(c, lambda y: price(s, t, y), v), 0), tol=1e-5))
                c.check("bs_european_binary_theta call=%s" % call, api.eq(elem(F.bs_european_binary_theta(s, t, v, call=call, strike=K), 0),
                                                                       elem(-dfun(c, lambda y: price(s, y, v), t), 0), tol=1e-5))
        elif fname == "ambinary":
            mx = api.tensor(c, "m", (1,))
            c.assume(api.ge(elem(mx, 0), elem(s, 0)))
            price = lambda s_, t_, v_: F.bs_american_binary_price(s_, mx, t_, v_)  # noqa: E731
            d = dfun(c, lambda y: price(y, t, v), s) / spot(s)
            c.check("bs_american_binary_delta", api.eq(elem(F.bs_american_binary_delta(s, mx, t, v, K), 0), elem(d, 0), tol=1e-5))
            dd = dfun(c, lambda y: F.bs_american_binary_delta(y, mx, t, v, K), s) / spot(s)
            c.check("bs_american_binary_gamma == d delta", api.eq(elem(F.bs_american_binary_gamma(s, mx, t, v, K), 0), elem(dd, 0), tol=1e-5))
            c.check("bs_american_binary_vega", api.eq(elem(F.bs_american_binary_vega(s, mx, t, v, K), 0), elem(dfun(c, lambda y: price(s, t, y), v), 0), tol=1e-5))
            c.check("bs_american_binary_theta", api.eq(elem(F.bs_american_binary_theta(s, mx, t, v, K), 0), elem(-dfun(c, lambda y: price(s, y, v), t), 0), tol=1e-5))

    return fn


def autogreek_case():
    """autogreek on a smooth user pricer under every accepted parameterisation"""
    from pfhedge import autogreek

    def fn(c):
        x = api.tensor(c, "x", (2,), pos=True)  # spot / moneyness
        lm = api.tensor(c, "lm", (2,))  # log-moneyness
        v = api.tensor(c, "v", (2,), pos=True)
        var = api.tensor(c, "var", (2,), pos=True)
        t = api.tensor(c, "t", (2,), pos=True)
        K = api.real(c, "K", pos=True)
        A, B = api.real(c, "A"), api.real(c, "B")

        # P(y, vol, time) = A*y^2*vol + exp(B*y)*time   ->  P_y = 2*A*y*vol + B*exp(B*y)*time ; P_yy = 2*A*vol + B^2*exp(B*y)*time
        def P(y, vol, tt):
            return A * y.square() * vol + (B * y).exp() * tt

        def e(tn, i):
            return elem(tn, i)

        for i in range(2):
            Py = lambda y, vol, tt: 2 * A * y * vol + B * api.exp(B * y) * tt  # noqa: E731
            Pyy = lambda y, vol, tt: 2 * A * vol + B * B * api.exp(B * y) * tt  # noqa: E731
            # spot
            d = autogreek.delta(lambda spot, volatility, time_to_maturity: P(spot, volatility, time_to_maturity),
                                spot=x.clone(), volatility=v, time_to_maturity=t, unused_extra=1.0)
            c.check("delta(spot)[%d]" % i, api.eq(e(d, i), Py(e(x, i), e(v, i), e(t, i))))
            g = autogreek.gamma(lambda spot, volatility, time_to_maturity: P(spot, volatility, time_to_maturity),
                                spot=x.clone(), volatility=v, time_to_maturity=t)
            c.check("gamma(spot)[%d]" % i, api.eq(e(g, i), Pyy(e(x, i), e(v, i), e(t, i))))
            # moneyness + strike: spot = m*K, dP/dspot = P_y(m)/K
            d = autogreek.delta(lambda moneyness, volatility, time_to_maturity: P(moneyness, volatility, time_to_maturity),
                                moneyness=x, strike=K, volatility=v, time_to_maturity=t)
            c.check("delta(moneyness,strike)[%d]" % i, api.eq(e(d, i), Py(e(x, i), e(v, i), e(t, i)) / K))
            g = autogreek.gamma(lambda moneyness, volatility, time_to_maturity: P(moneyness, volatility, time_to_maturity),
                                moneyness=x, strike=K, volatility=v, time_to_maturity=t)
            c.check("gamma(moneyness,strike)[%d]" % i, api.eq(e(g, i), Pyy(e(x, i), e(v, i), e(t, i)) / (K * K)))
            # log-moneyness + strike: spot = exp(lm)*K; dP/dspot = P_y(lm)/spot
            d = autogreek.delta(lambda log_moneyness, volatility, time_to_maturity: P(log_moneyness, volatility, time_to_maturity),
                                log_moneyness=lm, strike=K, volatility=v, time_to_maturity=t)
            S = api.exp(e(lm, i)) * K
            c.check("delta(log_moneyness,strike)[%d]" % i, api.eq(e(d, i), Py(e(lm, i), e(v, i), e(t, i)) / S))
            g = autogreek.gamma(lambda log_moneyness, volatility, time_to_maturity: P(log_moneyness, volatility, time_to_maturity),
                                log_moneyness=lm, strike=K, volatility=v, time_to_maturity=t)
            c.check("gamma(log_moneyness,strike)[%d]" % i, api.eq(e(g, i), (Pyy(e(lm, i), e(v, i), e(t, i)) - Py(e(lm, i), e(v, i), e(t, i))) / (S * S)))
            # gamma_from_delta
            gd = autogreek.gamma_from_delta(lambda spot, volatility, time_to_maturity: 2 * A * spot * volatility + B * (B * spot).exp() * time_to_maturity,
                                            spot=x.clone(), volatility=v, time_to_maturity=t)
            c.check("gamma_from_delta[%d]" % i, api.eq(e(gd, i), Pyy(e(x, i), e(v, i), e(t, i))))
            # vega: volatility, and variance (dP/dvol = P_var * 2 vol)
            vg = autogreek.vega(lambda spot, volatility, time_to_maturity: P(spot, volatility, time_to_maturity),
                                spot=x, volatility=v.clone(), time_to_maturity=t)
            c.check("vega(volatility)[%d]" % i, api.eq(e(vg, i), A * e(x, i) * e(x, i)))
            vg = autogreek.vega(lambda spot, variance, time_to_maturity: P(spot, variance, time_to_maturity),
                                spot=x, variance=var, time_to_maturity=t)
            c.check("vega(variance)[%d]" % i, api.eq(e(vg, i), A * e(x, i) * e(x, i) * 2 * api.sqrt(e(var, i))))
            # theta carries the minus sign
            th = autogreek.theta(lambda spot, volatility, time_to_maturity: P(spot, volatility, time_to_maturity),
                                 spot=x, volatility=v, time_to_maturity=t.clone())
            c.check("theta[%d]" % i, api.eq(e(th, i), -api.exp(B * e(x, i))))
        c.control("control:theta without sign", api.eq(e(th, 0), api.exp(B * e(x, 0))))
        c.control("control:delta(moneyness) without 1/K", api.eq(e(autogreek.delta(
            lambda moneyness, volatility, time_to_maturity: P(moneyness, volatility, time_to_maturity),
            moneyness=x, strike=K, volatility=v, time_to_maturity=t), 0), 2 * A * e(x, 0) * e(v, 0) + B * api.exp(B * e(x, 0)) * e(t, 0)))

    return fn


def mixin_case():
    """BSModuleMixin default Greeks (autogreek wiring) on a module that only defines price"""

    def fn(c):
        from pfhedge.nn.functional import bs_european_price
        from pfhedge.nn.modules.bs._base import BSModuleMixin

        K = api.real(c, "K", pos=True)

        class OnlyPrice(BSModuleMixin):
            def price(self, log_moneyness, time_to_maturity, volatility, strike=None):
                return bs_european_price(log_moneyness, time_to_maturity, volatility, strike=K)

        with facades.real_torch():
            m = OnlyPrice()
        s = api.tensor(c, "s", (1,))
        t = api.tensor(c, "t", (1,), pos=True)
        v = api.tensor(c, "v", (1,), pos=True)
        price = lambda s_, t_, v_: m.price(s_, t_, v_)  # noqa: E731
        spot = lambda s_: s_.exp() * K  # noqa: E731
        d_true = lambda s_: dfun(c, lambda y: price(y, t, v), s_) / spot(s_)  # noqa: E731
        kw = dict(log_moneyness=s, time_to_maturity=t, volatility=v, strike=K)
        c.check("mixin delta", api.eq(elem(m.delta(**kw), 0), elem(d_true(s), 0), tol=1e-5))
        if c.mode == "sym":
            c.check("mixin gamma", api.eq(elem(m.gamma(**kw), 0), elem(dfun(c, d_true, s) / spot(s), 0)))
        c.check("mixin vega", api.eq(elem(m.vega(**kw), 0), elem(dfun(c, lambda y: price(s, t, y), v), 0), tol=1e-5))
        c.check("mixin theta", api.eq(elem(m.theta(**kw), 0), elem(-dfun(c, lambda y: price(s, y, v), t), 0), tol=1e-5))

    return fn


def cases():
    cs = []
    enc = ("bs_european_{price,delta,gamma,vega,theta}", "bs_european_binary_{price,delta,gamma,vega,theta}",
           "bs_american_binary_{price,delta,gamma,vega,theta}", "bs_lookback_{price,delta,gamma,vega,theta}", "d1", "d2", "ncdf", "npdf",
           "_bs_theta_gamma_relation", "_bs_vega_gamma_relation", "BSEuropeanOption/BSEuropeanBinaryOption/BSAmericanBinaryOption/BSLookbackOption "
           "price/delta/gamma/vega/theta", "autogreek.delta/gamma/gamma_from_delta/vega/theta", "parse_spot/parse_volatility/parse_time_to_maturity",
           "BSModuleMixin default Greeks")
    for kind, calls in (("european", (True, False)), ("eubinary", (True, False)), ("ambinary", (True,)), ("lookback", (True,))):
        for call in calls:
            for greek in ("delta", "gamma", "vega", "theta"):
                heavy = kind == "lookback" and greek in ("gamma", "vega", "theta")
                cs.append(Case("module/%s/%s/%s" % (kind, "call" if call else "put", greek), bs_case(kind, call, greek),
                               tier="thorough" if heavy else "quick", timeout=300 if heavy else 60, encodes=enc,
                               bounds="all real log-moneyness, t>0, v>0, K>0%s; tensor (1,)" % (", running max >= spot, max != strike" if kind in ("ambinary", "lookback") else ""),
                               families=("basic",), batch=False))
    for f in ("european", "eubinary", "ambinary"):
        cs.append(Case("functional/%s" % f, functional_case(f), encodes=enc, bounds="symbolic strike, tensor (1,)", families=("basic",), timeout=60, batch=False))
    cs.append(Case("autogreek/user-pricer", autogreek_case(), encodes=enc, bounds="pricer A*y^2*vol + exp(B*y)*t with symbolic A,B; every parameterisation",
                   families=("basic",), timeout=60))
    cs.append(Case("mixin/default-greeks", mixin_case(), encodes=enc, bounds="module defining only price", families=("basic",), timeout=60, batch=False))
    cs.append(Case("module/european/call/delta/shape2", bs_case("european", True, "delta", (2,)), tier="thorough", encodes=enc, bounds="tensor (2,)", families=("basic",)))
    return cs
