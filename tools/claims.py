SMT = "symbolic execution of the real code on solver terms + z3 (bounded model checking), counterexample replay"
claim("C01",
      "Bounded symbolic model checking: the real pl()/terminal_value() and Hedger.compute_pl/compute_portfolio are executed on fully symbolic spot/unit/payoff/cost tensors (N<=3,H<=3,T<=6; all real values) and z3 proves the result equal to the written-out self-financing identity for every value; hedger level uses an uninterpreted row-wise model and symbolic instrument buffers, both evaluation branches, underlier / two primaries / primary+listed-derivative hedges.",
      "Exact real arithmetic (no rounding); sizes bounded; torch handler table (conformance-tested) is the trusted model of torch; cost list lifted exactly.",
      "DESIGN.md §3 C01", SMT)
NA["C17"] = "dtype/device contract over cast/simulate histories: the state is torch metadata steered by object identity over a finite dtype alphabet; no numeric input for a solver to quantify over (DESIGN.md §4)"
