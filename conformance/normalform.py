"""Value preservation of the term layer: random expression trees are built through the normalising constructors and
evaluated (evalf) against a direct float evaluation of the same tree; symbolic derivatives are compared with central finite
differences; expand() and subst() must preserve values.  Guards the normal forms (cancellation, sign canonicalisation,
exp/log rewriting) against unsound rewrites."""
import math
import random
from fractions import Fraction

from symtorch import terms as tm


def _gen(rng, depth, vars_):
    """returns (term, python function env->float)"""
    if depth == 0 or rng.random() < 0.2:
        if rng.random() < 0.6:
            v = rng.choice(vars_)
            return v, (lambda env, n=v.val: env[n])
        k = Fraction(rng.randint(-6, 6), rng.choice([1, 2, 3]))
        return tm.const(k), (lambda env, k=float(k): k)
    op = rng.choice(["add", "add", "sub", "mul", "mul", "div", "neg", "pow2", "pow3", "abs", "max", "min", "ite", "exp", "logp", "sqrtp", "scale", "powm1",
                     "Phi", "sin", "cos", "logsumexp", "logprod", "explog", "expprod", "logscaled", "logmax", "Phimin"])
    a, fa = _gen(rng, depth - 1, vars_)
    if op in ("add", "sub", "mul", "div", "max", "min", "ite", "logsumexp", "logprod", "expprod", "logmax", "Phimin"):
        b, fb = _gen(rng, depth - 1, vars_)
    if op == "add":
        return tm.add(a, b), (lambda env: fa(env) + fb(env))
    if op == "sub":
        return tm.sub(a, b), (lambda env: fa(env) - fb(env))
    if op == "mul":
        return tm.mul(a, b), (lambda env: fa(env) * fb(env))
    if op == "div":
        den = tm.add(tm.mul(b, b), tm.const(1))
        return tm.div(a, den), (lambda env: fa(env) / (fb(env) ** 2 + 1))
    if op == "neg":
        return tm.neg(a), (lambda env: -fa(env))
    if op == "pow2":
        return tm.powi(a, 2), (lambda env: fa(env) ** 2)
    if op == "pow3":
        return tm.powi(a, 3), (lambda env: fa(env) ** 3)
    if op == "powm1":
        den = tm.add(tm.mul(a, a), tm.const(Fraction(1, 2)))
        return tm.powi(den, -1), (lambda env: 1.0 / (fa(env) ** 2 + 0.5))
    if op == "abs":
        return tm.abs_(a), (lambda env: abs(fa(env)))
    if op == "max":
        return tm.max_(a, b), (lambda env: max(fa(env), fb(env)))
    if op == "min":
        return tm.min_(a, b), (lambda env: min(fa(env), fb(env)))
    if op == "ite":
        c_, fc = _gen(rng, depth - 1, vars_)
        return tm.ite(tm.lt(c_, a), a, b), (lambda env: fa(env) if fc(env) < fa(env) else fb(env))
    if op == "exp":
        sm = tm.scale(a, Fraction(1, 8))
        return tm.exp(sm), (lambda env: math.exp(fa(env) / 8))
    if op == "logp":
        arg = tm.add(tm.mul(a, a), tm.const(Fraction(1, 3)))
        return tm.log(arg), (lambda env: math.log(fa(env) ** 2 + 1 / 3))
    if op == "sqrtp":
        arg = tm.add(tm.mul(a, a), tm.const(Fraction(1, 5)))
        return tm.sqrt(arg), (lambda env: math.sqrt(fa(env) ** 2 + 0.2))
    if op == "Phi":
        return tm.Phi(a), (lambda env: 0.5 * math.erfc(-fa(env) / math.sqrt(2)))
    if op == "sin":
        return tm.sin(a), (lambda env: math.sin(fa(env)))
    if op == "cos":
        return tm.cos(a), (lambda env: math.cos(fa(env)))
    if op == "logsumexp":
        c1, c2 = Fraction(rng.randint(1, 4), rng.choice([1, 2, 3])), Fraction(rng.randint(1, 4), rng.choice([1, 2]))
        shift, fs = _gen(rng, 1, vars_)
        t_ = tm.add(shift, tm.log(tm.add(tm.scale(tm.exp(tm.sub(tm.scale(a, Fraction(1, 8)), shift)), c1),
                                         tm.scale(tm.exp(tm.sub(tm.scale(b, Fraction(1, 8)), shift)), c2))))
        return t_, (lambda env, c1=float(c1), c2=float(c2): math.log(c1 * math.exp(fa(env) / 8) + c2 * math.exp(fb(env) / 8)))
    if op == "logprod":
        arg = tm.mul(tm.exp(tm.scale(a, Fraction(1, 8))), tm.add(tm.mul(b, b), tm.const(Fraction(1, 3))))
        return tm.log(arg), (lambda env: fa(env) / 8 + math.log(fb(env) ** 2 + 1 / 3))
    if op == "explog":
        k = rng.choice([Fraction(1, 2), Fraction(1, 3), Fraction(2), Fraction(-1), Fraction(3, 2), Fraction(-2, 3)])
        base = tm.add(tm.mul(a, a), tm.const(Fraction(1, 3)))
        return tm.exp(tm.scale(tm.log(base), k)), (lambda env, k=float(k): (fa(env) ** 2 + 1 / 3) ** k)
    if op == "expprod":
        e_ = rng.choice([1, 2, -1])
        t_ = tm.mul(tm.exp(tm.scale(a, Fraction(1, 8))), tm.powi(tm.exp(tm.scale(b, Fraction(1, 8))), e_))
        return t_, (lambda env, e_=e_: math.exp(fa(env) / 8) * math.exp(fb(env) / 8) ** e_)
    if op == "logscaled":
        k = Fraction(rng.randint(1, 9), rng.choice([1, 2, 4]))
        return tm.log(tm.scale(tm.add(tm.mul(a, a), tm.const(Fraction(1, 3))), k)), (lambda env, k=float(k): math.log(k * (fa(env) ** 2 + 1 / 3)))
    if op == "logmax":
        pa, pb = tm.add(tm.mul(a, a), tm.const(Fraction(1, 3))), tm.add(tm.mul(b, b), tm.const(Fraction(1, 5)))
        return tm.log(tm.scale(tm.max_(pa, pb), Fraction(3, 2))), (lambda env: math.log(1.5 * max(fa(env) ** 2 + 1 / 3, fb(env) ** 2 + 0.2)))
    if op == "Phimin":
        return tm.Phi(tm.sub(tm.min_(a, b), tm.const(1))), (lambda env: 0.5 * math.erfc(-(min(fa(env), fb(env)) - 1) / math.sqrt(2)))
    if op == "scale":
        k = Fraction(rng.randint(-5, 5), rng.choice([1, 2, 4]))
        return tm.scale(a, k), (lambda env, k=float(k): k * fa(env))
    raise AssertionError(op)


def close(x, y, tol=1e-7):
    if math.isnan(x) or math.isnan(y) or math.isinf(x) or math.isinf(y):
        return True
    return abs(x - y) <= tol * (1 + abs(x) + abs(y))


def run(n=400, seed=5):
    rng = random.Random(seed)
    vars_ = [tm.var("nf%d" % i) for i in range(4)]
    fails = []
    checked = 0
    for k in range(n):
        t, f = _gen(rng, rng.randint(2, 5), vars_)
        for _ in range(3):
            env = {v.val: rng.choice([-2.5, -1.0, -0.5, 0.0, 0.25, 0.75, 1.5, 3.0]) + rng.random() * 0.01 for v in vars_}
            try:
                want = f(env)
                got = tm.evalf(t, env)
            except (OverflowError, ZeroDivisionError, ValueError):
                continue
            checked += 1
            if not close(float(got), float(want)):
                fails.append("normal form changed the value: %s  got %r want %r" % (tm.show(t, 5)[:200], got, want))
                continue
            # expand / subst preserve values
            try:
                ge = tm.evalf(tm.expand(t), env)
                if not close(float(ge), float(want), 1e-6):
                    fails.append("expand changed the value: %s" % tm.show(t, 5)[:200])
                sub = {vars_[0]: tm.add(vars_[1], tm.const(Fraction(1, 2)))}
                env2 = dict(env)
                env2[vars_[0].val] = env[vars_[1].val] + 0.5
                gs = tm.evalf(tm.subst(t, sub), env)
                if not close(float(gs), float(f(env2)), 1e-6):
                    fails.append("subst changed the value: %s" % tm.show(t, 5)[:200])
            except (OverflowError, ZeroDivisionError, ValueError):
                pass
            # derivative vs central finite difference (away from kinks)
            x = vars_[0]
            try:
                d = tm.evalf(tm.D(t, x), env)
                h = 1e-6
                ep, em = dict(env), dict(env)
                ep[x.val] += h
                em[x.val] -= h
                fd = (f(ep) - f(em)) / (2 * h)
                fd2 = (f({**env, x.val: env[x.val] + 2 * h}) - f({**env, x.val: env[x.val] - 2 * h})) / (4 * h)
                if close(fd, fd2, 1e-4) and not close(float(d), fd, 1e-3):
                    fails.append("derivative differs from finite differences: %s  D=%r fd=%r" % (tm.show(t, 5)[:160], d, fd))
            except (OverflowError, ZeroDivisionError, ValueError):
                pass
    return checked, fails
