"""C13 — the time grid matches maturity and step size."""
import math
from fractions import Fraction

import torch

from harness.lib import Case
from harness import common as cm
from symtorch import api, ctx as cx, facades
from symtorch import tensor as st
from symtorch.api import elem
from symtorch.ctx import SymInt, SymReal

META = {
    "stubs": ["path generators generate_*: replaced by a stub that records the n_steps / time_horizon it is called with and returns "
              "symbolic buffers (the grid size is decided before any random number is drawn)"],
    "axioms": ["integer floor/ceil through z3 ToInt (QF_LIRA / QF_NIRA)"],
    "assumptions": ["exact real arithmetic: the float rounding of maturity/dt is outside the claim (in real arithmetic there is no "
                    "'within rounding distance of an integer' band); a change that only alters float rounding of the quotient is not visible",
                    "symbolic dt: maturity = q*dt with 0 < q <= 6; concrete dt from {1/250, 1/365, 1/12, 0.1, 1/252, 0.01} (the doubles, "
                    "lifted exactly) with all real maturities 0 < M <= 6*dt"],
}

PRIMARIES = {
    "BrownianStock": ("brownian", "generate_geometric_brownian", ("spot",)),
    "HestonStock": ("heston", "generate_heston", ("spot", "variance")),
    "CIRRate": ("cir", "generate_cir", ("spot",)),
    "VasicekRate": ("vasicek", "generate_vasicek", ("spot",)),
    "MertonJumpStock": ("merton_jump", "generate_merton_jump", ("spot",)),
    "KouJumpStock": ("kou_jump", "generate_kou_jump", ("spot",)),
    "RoughBergomiStock": ("rough_bergomi", "generate_rough_bergomi", ("spot", "variance")),
    "LocalVolatilityStock": ("local_volatility", "generate_local_volatility_process", ("spot", "volatility")),
}


class Recorder:
    def __init__(self, c, fields, T_stub=3):
        self.c = c
        self.fields = fields
        self.calls = []
        self.T_stub = T_stub

    def __call__(self, **kw):
        self.calls.append(kw)
        n = kw["n_paths"]
        ns = kw["n_steps"]
        T = int(ns)  # concretises a symbolic step count (forks over the feasible values)
        from collections import namedtuple

        bufs = [api.tensor(self.c, "gen%d.%s" % (len(self.calls), f), (n, T), pos=True) for f in self.fields]
        if len(bufs) == 1:
            return bufs[0]
        return namedtuple("Out", self.fields)(*bufs)


def nsteps_case(cls_name, dt_kind, with_init=False):
    import importlib

    modname, gen, fields = PRIMARIES[cls_name]

    def fn(c):
        mod = importlib.import_module("pfhedge.instruments.primary." + modname)
        cls = getattr(mod, cls_name)
        if dt_kind == "sym":
            dt = dtx = api.real(c, "dt", pos=True)
            q = api.real(c, "q", pos=True, hi=6)
            M = q * dt
        else:
            dt = dt_kind
            M = api.real(c, "M", pos=True)
            # the double dt, exactly (so that oracle arithmetic is not rounded a second time)
            dtx = SymReal(Fraction(dt_kind)) if c.mode == "sym" else dt_kind
            q = M / dtx
            c.assume(api.le(q, Fraction(11, 2)))
        rec = Recorder(c, fields)
        old = getattr(mod, gen)
        setattr(mod, gen, rec)
        try:
            with facades.real_torch():
                if cls_name == "LocalVolatilityStock":
                    p = cls(sigma_fn=lambda t, s: s, dt=dt)
                else:
                    p = cls(dt=dt)
            from pfhedge.instruments import EuropeanOption

            d = EuropeanOption(p, maturity=M)
            if with_init:
                # an explicit initial state goes through the same grid (maturity still decides the number of steps)
                s0 = api.real(c, "s0", pos=True)
                d.simulate(n_paths=2, init_state=(s0,))
            else:
                d.simulate(n_paths=2)
        finally:
            setattr(mod, gen, old)
        c.check("the generator is called", len(rec.calls) >= 1)
        ns = rec.calls[-1]["n_steps"]
        want = api.ceilv(q) + 1
        c.check("n_steps == ceil(M/dt)+1", api.eq(ns, want))
        if with_init:
            got = rec.calls[-1].get("init_state")
            c.check("generator receives the caller's initial state", got is not None and len(got) == 1 and (got[0] is s0 or api.eq(got[0], s0)))
        c.check("generator receives the instrument's dt", rec.calls[-1]["dt"] is dt or api.eq(rec.calls[-1]["dt"], dt))
        T = int(ns)
        for f in fields:
            c.check("buffer %s has n_steps columns" % f, tuple(p.get_buffer(f).shape) == (2, T))
        # time to maturity on this grid
        ttm = d.time_to_maturity()
        c.check("time_to_maturity shape", tuple(ttm.shape) == (2, T))
        c.check("time_to_maturity(0) == (T-1)*dt", api.eq(elem(ttm, 0, 0), (T - 1) * dtx))
        c.control("control:n_steps == floor(M/dt)+1", api.eq(ns, api.floorv(q) + 1))
        c.control("control:n_steps == ceil(M/dt)+2", api.eq(ns, api.ceilv(q) + 2))

    return fn


def two_underliers_case():
    def fn(c):
        import pfhedge.instruments.primary.brownian as mb
        import pfhedge.instruments.primary.heston as mh
        from pfhedge.instruments import BaseDerivative, BrownianStock, HestonStock

        dt = api.real(c, "dt", pos=True)
        q = api.real(c, "q", pos=True, hi=4)
        M = q * dt
        r1, r2 = Recorder(c, ("spot",)), Recorder(c, ("spot", "variance"))
        o1, o2 = mb.generate_geometric_brownian, mh.generate_heston
        mb.generate_geometric_brownian, mh.generate_heston = r1, r2
        try:
            class Spread(BaseDerivative):
                def __init__(self, a, b, maturity):
                    super().__init__()
                    self.register_underlier("a", a)
                    self.register_underlier("b", b)
                    self.maturity = maturity

                def payoff_fn(self):
                    return self.ul(0).spot[..., -1] - self.ul(1).spot[..., -1]

            d = Spread(BrownianStock(dt=dt), HestonStock(dt=dt), M)
            d.simulate(n_paths=3, init_state=None)
        finally:
            mb.generate_geometric_brownian, mh.generate_heston = o1, o2
        for i, r in enumerate((r1, r2)):
            c.check("underlier %d simulated" % i, len(r.calls) >= 1)
            c.check("underlier %d gets n_paths" % i, r.calls[-1]["n_paths"] == 3)
            c.check("underlier %d n_steps == ceil(M/dt)+1" % i, api.eq(r.calls[-1]["n_steps"], api.ceilv(q) + 1))
        c.check("same grid for both underliers", api.eq(r1.calls[-1]["n_steps"], r2.calls[-1]["n_steps"]))

    return fn


def ttm_case(N, T, ul_kind="brownian"):
    def fn(c):
        env = cm.market(c, N, T, "european", "two_primaries", ul_kind=ul_kind)
        deriv, hedge, ul = env["derivative"], env["hedge"], env["ul"]
        dt = ul.dt
        full = deriv.time_to_maturity()
        c.check("ttm(None) shape", tuple(full.shape) == (N, T))
        for i in range(-T, T):
            one = deriv.time_to_maturity(i)
            c.check("ttm(%d) shape" % i, tuple(one.shape) == (N, 1))
            k = i % T
            for n in range(N):
                c.check("ttm(%d)[%d] == (T-1-i)*dt" % (i, n), api.eq(elem(one, n, 0), (T - 1 - k) * dt))
                c.check("ttm(None)[%d,%d] agrees" % (n, k), api.eq(elem(full, n, k), (T - 1 - k) * dt))
        for n in range(N):
            c.check("zero at the last step [%d]" % n, api.eq(elem(full, n, T - 1), 0))
            for i in range(T - 1):
                c.check("strictly decreasing [%d,%d]" % (n, i), api.gt(elem(full, n, i), elem(full, n, i + 1)))
        if T >= 2:
            c.control("control:ttm counts from the other end", api.eq(elem(full, 0, 0), 0 * dt))
            c.control("control:ttm(0) == T*dt", api.eq(elem(deriv.time_to_maturity(0), 0, 0), T * dt))
        # everything else uses this same grid
        c.check("payoff has one entry per path", tuple(deriv.payoff().shape) == (N,))
        for f in cm.FEATURES:
            if f in ("spot", "log_spot", "log_spot_of_passthrough_pricer"):
                continue
            ft = cm.make_feature(c, f).of(deriv)
            c.check("feature %s has T columns" % f, tuple(ft.get(None).shape) == (N, T, 1))
            c.check("feature %s step shape" % f, tuple(ft.get(T - 1).shape) == (N, 1, 1))
        for inputs in (["log_moneyness", "time_to_maturity", "volatility"], ["log_moneyness", "time_to_maturity", "prev_hedge"]) if T >= 2 else ():
            hedger = cm.make_hedger(c, inputs, 2)
            c.check("hedge has T columns (%s)" % inputs[-1], tuple(hedger.compute_hedge(deriv, hedge).shape) == (N, 2, T))

    return fn


def cases():
    cs = []
    enc = tuple("%s.simulate" % k for k in PRIMARIES) + ("BaseDerivative.simulate", "OptionMixin.time_to_maturity", "every feature get()",
                                                        "Hedger.compute_hedge", "payoff()")
    for name in PRIMARIES:
        cs.append(Case("nsteps/%s/dt=sym" % name, nsteps_case(name, "sym"), encodes=enc, bounds="symbolic dt>0, maturity=q*dt, 0<q<=6",
                       max_paths=16, timeout=30))
    for name in ("BrownianStock", "VasicekRate", "MertonJumpStock"):
        cs.append(Case("nsteps/%s/dt=sym/init_state" % name, nsteps_case(name, "sym", with_init=True), encodes=enc,
                       bounds="symbolic dt>0, maturity=q*dt, 0<q<=6; derivative.simulate(init_state=(s0,))", max_paths=16, timeout=30))
    for dtv in (1 / 250, 0.1):
        cs.append(Case("nsteps/BrownianStock/dt=%r" % dtv, nsteps_case("BrownianStock", dtv), encodes=enc,
                       bounds="dt=%r (the double, exactly), all real 0<M<=5.5dt" % dtv, max_paths=16))
    for name in PRIMARIES:
        for dtv in (1 / 250, 1 / 365, 1 / 12, 0.1, 1 / 252, 0.01):
            cs.append(Case("nsteps/%s/dt=%r" % (name, dtv), nsteps_case(name, dtv), tier="thorough", encodes=enc,
                           bounds="dt=%r" % dtv, max_paths=16))
    cs.append(Case("two_underliers", two_underliers_case(), encodes=enc, bounds="symbolic dt, 0<q<=4", max_paths=16))
    for T in (1, 2, 4):
        cs.append(Case("ttm/T%d" % T, ttm_case(2, T), encodes=enc, bounds="N=2 T=%d symbolic dt, steps -T..T-1" % T))
    cs.append(Case("ttm/T6/heston", ttm_case(2, 6, "heston"), tier="thorough", encodes=enc, bounds="N=2 T=6"))
    return cs
