#!/usr/bin/env python3
"""file_seed.py <prop> <mK> <caught_by> <needs...>: copy a verified sub-agent change to /verif/seeded/<prop>-<mK>/ with meta.json"""
import json, os, shutil, sys
prop, m, caught = sys.argv[1], sys.argv[2], sys.argv[3]
import os as _os
src = "%s/%s_out/%s" % (_os.environ.get("MUTBASE", "/tmp/mut"), prop, m)
dst = "/verif/seeded/%s-%s%s" % (prop, _os.environ.get("SEEDTAG", ""), m)
os.makedirs(dst, exist_ok=True)
for f in ("patch.diff", "demo.py", "notes.md"):
    shutil.copy(os.path.join(src, f), os.path.join(dst, f))
log = open(os.path.join(src, "verify.log")).read().strip().split("\n") if os.path.exists(os.path.join(src, "verify.log")) else []
notes = open(os.path.join(src, "notes.md")).read()
meta = {
    "property": prop,
    "id": "%s-%s%s" % (prop, _os.environ.get("SEEDTAG", ""), m),
    "origin": "independent sub-agent given only the property text and a scratch worktree",
    "needs_to_manifest": " ".join(sys.argv[4:]) or "see notes.md",
    "verified_by_me": {"what_i_ran": "tools/verify_seed.sh %s %s (scratch worktree of /repo HEAD: demo without patch, git apply, demo with patch, "
                                     "pinned suite -k 'not gpu')" % (prop, m), "log": log},
    "checks_run_against_it": "tools/try_seed.sh %s/patch.diff <property> quick (git -C /repo apply; bin/vcheck; git -C /repo checkout -- .)" % dst,
    "caught_by": caught,
}
json.dump(meta, open(os.path.join(dst, "meta.json"), "w"), indent=1)
print("filed", dst)
