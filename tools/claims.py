SMT = "symbolic execution of the real code on solver terms + z3 (bounded model checking), counterexample replay"
claim("C01",
      "Bounded symbolic model checking: the real pl()/terminal_value() and Hedger.compute_pl/compute_portfolio are executed on fully symbolic spot/unit/payoff/cost tensors (N<=3,H<=3,T<=6; all real values) and z3 proves the result equal to the written-out self-financing identity for every value; hedger level uses an uninterpreted row-wise model and symbolic instrument buffers, both evaluation branches, underlier / two primaries / primary+listed-derivative hedges.",
      "Exact real arithmetic (no rounding); sizes bounded; torch handler table (conformance-tested) is the trusted model of torch; cost list lifted exactly.",
      "DESIGN.md §3 C01", SMT)
NA["C17"] = "dtype/device contract over cast/simulate histories: the state is torch metadata steered by object identity over a finite dtype alphabet; no numeric input for a solver to quantify over (DESIGN.md §4)"
claim("C02",
      "Bounded symbolic model checking of non-anticipativity: the real compute_hedge (both branches) is run on two instruments whose buffers share symbols up to column t and differ afterwards, for every t; z3 proves hedge[:, :, :t+1] identical and the last column equal to the previous one, for every registered feature, uninterpreted/Linear/Naked/BlackScholes/WhalleyWilmott models, N<=2, T<=6, H<=2; the same hedger object is re-used across evaluations so stale state shows.",
      "Row-wise models only (uninterpreted function = any row-wise model); exact reals; Black-Scholes based models use the extended-real element model (analytic deltas) or arbitrary values for undefined constant operations (autogreek deltas).",
      "DESIGN.md §3 C02", SMT)
claim("C03",
      "Bounded symbolic model checking: for every feature and step i, get(i) == get(None)[:, i] on symbolic buffers; a stepwise hedger whose model ignores prev_hedge equals the vectorised hedger in hedge, P&L and loss (same uninterpreted model symbol); the prev_hedge columns seen at step i are the model's output at step i-1 (zeros at step 0, also on a second evaluation). N<=3, H<=3, T<=6.",
      "Exact reals; uninterpreted row-wise model; Empty feature excluded from value comparison.",
      "DESIGN.md §3 C03", SMT)
claim("C12",
      "Bounded symbolic model checking: payoff functions and derivative classes are executed on symbolic positive paths (T<=6), symbolic strike, call/put; z3 proves equality with the written-out contractual definitions including tie conventions, the orderings, parity, clause order, and the forward-start index floor(start/dt) for symbolic start and dt (path explorer forks over feasible indices); variance swap via log product-law instances.",
      "Exact reals; N<=2 (row-wise functions).", "DESIGN.md §3 C12", SMT)
claim("C13",
      "Bounded symbolic model checking: simulate() of all eight primaries is executed with symbolic maturity and step size (generator stubbed to record n_steps) and z3 proves n_steps == ceil(M/dt)+1 (QF_LIRA/NIRA via ToInt), every underlier receives the maturity, time_to_maturity(i) == (T-1-i)*dt for i in -T..T-1, and payoff/features/hedge share the T-column grid.",
      "Exact real arithmetic: changes that only affect the float rounding of maturity/dt are invisible (seed C13-m2 is such a change and is not caught); maturity/dt <= 6.",
      "DESIGN.md §3 C13", SMT)
claim("C16",
      "Bounded symbolic model checking with an aliasing model: after every public computation (each feature get(None)/get(i), payoff, listed spot, compute_hedge/pl/portfolio, criteria, functional forms, autogreek) every buffer element is proved equal to the symbol it held before (in-place writes through views are modelled by shared numpy payloads); operation sequences of length <=3 on one hedger are proved to give the same hedge/P&L as a fresh hedger.",
      "Exact reals; view/copy behaviour of the handler table is the trusted model of torch aliasing; dtype changes in histories excluded.",
      "DESIGN.md §3 C16", SMT)
claim("C20",
      "Symbolic model checking over all real inputs: clamp/leaky_clamp (functions and modules, tensor/scalar/broadcast bounds, one-sided, inverted, both inverted_output modes), the Whalley-Wilmott band rule and width (cbrt axioms), SVI, bilerp, Box-Muller and realized volatility are executed symbolically and proved equal to their documented formulas.",
      "Exact reals; leaky slope in [0,1]; Whalley-Wilmott on the open Black-Scholes domain.", "DESIGN.md §3 C20", SMT)
claim("C08",
      "Symbolic model checking on the whole open domain (all real log-moneyness, t>0, v>0, K>0, running max): every Black-Scholes price is executed symbolically, differentiated symbolically (d/dS through S=K e^s, d/dv, -d/dt) and z3 proves each closed-form or autogreek Greek equal to that derivative (exp add-law/congruence instances, Phi' rule); autogreek is run for real (torch.autograd.grad served by symbolic differentiation) on a smooth user pricer under every parameterisation.",
      "Exact reals; special functions uninterpreted with listed axioms; branch boundaries (max = strike) excluded; tensors (1,),(2,).",
      "DESIGN.md §3 C08", SMT)
claim("C18",
      "Symbolic model checking in an extended-real element model (nan/+inf/-inf flags with IEEE rules): at t=0 (any v>=0) and at v=0 (any t>=0), for all finite log-moneyness and K>0, every price is proved non-NaN, finite and equal to the then-certain payoff, analytic deltas equal their limits away from the strike, negative t or v is proved to raise ValueError on every path, and BlackScholes/WhalleyWilmott hedgers are proved to give finite hedges and P&L on symbolic positive paths (T<=4) including the last step.",
      "No signed zeros, no finite overflow/underflow ('tiny' t, v excluded); autograd-based Greeks (lookback delta, American-binary gamma) are outside the extended-real model.",
      "DESIGN.md §3 C18", "symbolic execution in an extended-real (NaN/inf-aware) term model + z3, counterexample replay")
claim("C07",
      "Symbolic model checking of the boundary-value problem that characterises the expectation: for each executed price term z3 proves the Black-Scholes PDE P_t = 1/2 v^2 S^2 P_SS on the whole open domain (European, binary, American binary and both lookback branches; calls and puts), the terminal condition P(t=0) = payoff in the extended-real model, the barrier/running-maximum boundary conditions (American binary = 1 at the barrier, lookback dP/dM = 0 at M = S, continuity at max = strike), and the wiring of modules / from_derivative / BlackScholes(derivative) / omitted arguments to the derivative's strike, call flag and simulated state.",
      "The expectation integral itself is not encoded: Feynman-Kac + uniqueness is a trusted theorem; only the value at t=0 (not the limit t->0+) is checked; exact reals.",
      "DESIGN.md §3 C07", SMT)
claim("C09",
      "Symbolic model checking on the whole open domain: parity identities, [0,1] bounds, call <= spot, put <= strike, American binary >= European binary and == 1 once the barrier is reached, lookback >= European while max < strike, and the signs of the symbolic partial derivatives of the executed price terms (dP/dS > 0, P_SS >= 0, vega >= 0, dP/dt >= 0, binary call increasing in spot), from which monotonicity/convexity between any two points follow by the mean-value theorem.",
      "Mean-value theorem trusted; inequalities needing analytic facts about Phi beyond the axiom list (call >= intrinsic, American binary <= 1, lookback >= locked-in payoff) are not decided and not claimed.",
      "DESIGN.md §3 C09", SMT)
claim("C19",
      "Bounded symbolic model checking of the real bisection loop: the function under inversion is an arbitrary strictly monotone function per tensor element (fresh value per evaluation, constrained only by monotonicity against earlier evaluations and the symbolic root); the loop is unrolled by the path explorer (trip count implied by the concrete bracket/precision) and z3 proves |result - root| <= precision and result inside the bracket for increasing and decreasing functions, 0-dim to (2,2) tensors, scalar and tensor bounds, RuntimeError when max_iter is too small (and a bounded number of evaluations), ValueError for lower >= upper; European and lookback implied volatility are run with the real module price on the real bracket [0.001,1] at precision 2^-3..2^-5, with a call-site contract check that the requested precision and bracket reach bisect.",
      "bracket/precision <= 2^10; vega > 0 is an assumed lemma (C08/C09 + mean-value theorem) for the implied-volatility cases; precision 1e-6 on the real bracket is outside the claim; binaries not claimed.",
      "DESIGN.md §3 C19", SMT)
claim("C05",
      "Bounded symbolic model checking: expected shortfall / topp (all shapes (N,),(N,M),(N,M,K), dims None/0/1/-1, concrete p grid and fully symbolic p with the explorer forking over ceil(pN)) proved equal to minus the mean of the k worst outcomes characterised without sorting (min over k-subsets); value at risk by counting and against the order statistic; entropic risk = (1/a) log mean exp(-a x) through log product-law instances; utilities, EntropicLoss, IsoelasticLoss, OCE and every module's target subtraction; quadratic CVaR: bisect replaced by a contract stub, value proved minimal over every w up to lam*precision^2 for N=2 and first-order optimality + value formula for N<=6.",
      "Exact reals (no overflow statement); N<=6; VaR up to 1e-9*(max-min); QCVaR decade of the spread fixed per case; open known finding F1 (small-spread samples) is reported as KNOWN-FINDING, the complementary region stays checked.",
      "DESIGN.md §3 C05", SMT + " with an assume-guarantee contract stub for bisect")
claim("C04",
      "Bounded symbolic model checking of the risk-measure axioms on the real code: expected shortfall (N<=6, p grid): monotone, cash-invariant, convex at weights 1/2 and 1/3, positively homogeneous (incl. a symbolic scale), non-increasing in p, between -max and -min, >= -mean; entropic risk (symbolic a>0, N<=5, also a trailing shape): monotone, cash-invariant, bounds and >= -mean decided in exponential form with tangent-line hint instances; EntropicLoss/IsoelasticLoss monotone, EntropicLoss midpoint-convex (N=2); quadratic CVaR (bisect contract stub): cash-invariant and the bounds lowered by 1/(4 lam) on regular samples.",
      "Exact reals; N<=6; midpoint-type convexity (continuity lemma); not decided and not claimed: entropic-risk convexity, entropic monotone in a, IsoelasticLoss convexity, quadratic-CVaR monotonicity/convexity (stated in evidence).",
      "DESIGN.md §3 C04", SMT)
claim("C06",
      "Bounded symbolic model checking: for EntropicRiskMeasure, EntropicLoss and ExpectedShortfall the real cash() is proved to be the certainty equivalent (criterion of the constant sample equals criterion of the sample; exponential form for the entropic pair), between the worst and best outcome and <= the mean, with a symbolic target and per column; QuadraticCVaR.cash == -risk; the default search (IsoelasticLoss and a user subclass) is checked through the bisect contract stub including its call-site preconditions; Hedger.price is proved equal to minus the cash amount of (portfolio - payoff) on the same symbolic paths, averaged over n_times simulations, equal to the loss for the entropic risk measure, and shifted by exactly k by a payoff clause adding k.",
      "Exact reals; N<=5, M<=2, T=3; open known findings F2 (constant sample raises ValueError) and F3 (multi-column default search) are reported as KNOWN-FINDING with the complementary regions still checked; cash <= mean for IsoelasticLoss not decided.",
      "DESIGN.md §3 C06", SMT + " with an assume-guarantee contract stub for bisect")
